"""DDL-core (in-model) part of C01: CREATE TABLE with column definitions.

coq/theories/DdlCore.v models Parser::parse_create -> parse_create_table -> parse_columns -> parse_column_def ->
parse_optional_column_option / parse_optional_table_constraint and the Display impls of CreateTable / ColumnDef /
ColumnOptionDef / ColumnOption / TableConstraint at token level, over the data type model of C18 (DataTypeRT.v) and
the expression model of C04 (Pratt.v); coq/theories/DdlCoreProofs.v proves the round trip
`parse_create_table_core d fuel (dtoks c ++ rest) = Ok (c, rest)` for well-formed trees.  This module ties the model
to the implementation on every run:
  gen_ddl_tables()     coq/gen/DdlTables.v: per-dialect records (trailing commas, ASC/DESC column option, reserved
                       words), dumped / probed from the running crate (harness/prattx ddltables);
  check_ddl(run, p)    generates CREATE TABLE texts of the fragment in all dialects, runs the real tokenizer +
                       Parser::parse_sql + to_string + re-parse on them (harness/prattx ddl), encodes tokens and trees
                       as Coq terms and evaluates `dcase_full` inside the kernel VM: model parser = implementation on
                       the implementation's tokens, dtoks(tree) = tokens of the printed text, model round trip on the
                       tree, dwf(tree) for every accepted tree; and checks the property itself on the implementation
                       (print -> parse gives the same tree and the same text).
Evidence goes to run.notes["ddl_core"]."""
import os
import re
import time
import common
from common import *
from props import C04, C18

PKG = C04.PKG
HEADER = ("Require Import SqlV.Base SqlV.DataTypeRT SqlV.PrecSpec SqlV.Pratt SqlV.PrinterCore SqlV.DdlCore "
          "SqlV.DdlCoreProofs SqlVGen.PrecTables SqlVGen.DataTypeTables SqlVGen.DdlTables.\n")
MODEL_DIALECTS = [d for d in C04.DIALECTS if d != "snowflake"]     # SnowflakeDialect parses CREATE TABLE itself
PUNCT = {"LParen": "DT.TLParen", "RParen": "DT.TRParen", "Comma": "DT.TComma", "Lt": "DT.TLt", "Gt": "DT.TGt",
         "ShiftRight": "DT.TShr", "LBracket": "DT.TLBracket", "RBracket": "DT.TRBracket", "Period": "DT.TPeriod",
         "Colon": "DT.TColon"}
EXTRA_CODES = {"LBrace": 200, "RBrace": 201, "Backslash": 202, "Assignment": 203, "RArrow": 204}
U64 = (1 << 64) - 1
NUM_RE = re.compile(r"^(0|[1-9][0-9]*)$")
# words used as names: keywords the statement level tests for, keywords of the expression alphabet, type names
NAME_WORDS = ["UNIQUE", "PRIMARY", "KEY", "FOREIGN", "CHECK", "CONSTRAINT", "INDEX", "FULLTEXT", "SPATIAL", "REFERENCES",
              "NOT", "NULL", "DEFAULT", "COLLATE", "COMMENT", "GENERATED", "AS", "ON", "USING", "TABLE", "CREATE", "IF",
              "EXISTS", "LIKE", "CLONE", "SELECT", "FROM", "WHERE", "ORDER", "WITH", "INT", "TEXT", "DATE", "TIME",
              "TIMESTAMP", "ARRAY", "IS", "IN", "AND", "x7", "Abc"]


def gen_ddl_tables(tr=None):
    """coq/gen/DdlTables.v from `prattx ddltables` (run on the current /repo crate)."""
    t = run_bin(PKG, ["ddltables"], pkg=PKG)[0]
    if tr is None:
        tr = C18.gen_tables()           # coq/gen/DataTypeTables.v (the records below refer to it) from the current source
    v = ["(* GENERATED on every run by lib/props/c01ddl.py from the running /repo crate (harness/prattx ddltables):",
         "   keywords::RESERVED_FOR_COLUMN_ALIAS by name and the per-dialect switches of coq/theories/DdlCore.v",
         "   (supports_trailing_commas, supports_asc_desc_in_column_definition: trait method, cross-checked by a probe). *)",
         "Require Import SqlV.Base SqlV.PrecSpec SqlV.Pratt SqlV.DdlCore SqlVGen.PrecTables SqlVGen.DataTypeTables.", "",
         "Definition dres_col_all : list (list N) := %s." % coq_strs(t["reserved_for_column_alias"]), ""]
    flags, mism = {}, {}
    for d in C04.DIALECTS:
        e = t["dialects"][d]
        fl = {"trailing": bool(e["probes"]["trailing"]["ok"]), "asc_desc": bool(e["probes"]["asc_desc"]["ok"])}
        flags[d] = fl
        for k, val in e["flags"].items():
            if fl[k] != val:
                mism.setdefault(d, {})[k] = {"trait_method": val, "probe": fl[k]}
        if e["probes"]["trailing"]["ok"] != e["probes"]["trailing_list"]["ok"]:
            mism.setdefault(d, {})["trailing_list"] = e["probes"]["trailing_list"]
        v += ["Definition dd_%s : ddialect := {| dbase := d_%s; dname := %s; dtab := dt_tables; dtrailing := %s; dasc_desc := %s;"
              % (d, d, coq_str(d), coq_bool(fl["trailing"]), coq_bool(fl["asc_desc"])), "  dres_col := dres_col_all |}."]
    v += ["", "(* the dialects whose CREATE TABLE goes through Parser::parse_create *)",
          "Definition all_ddialects : list ddialect := [%s]." % "; ".join("dd_" + d for d in MODEL_DIALECTS)]
    write_if_changed(os.path.join(GEN, "DdlTables.v"), "\n".join(v) + "\n")
    return {"flags": flags, "flag_probe_mismatch": mism, "reserved_col": t["reserved_for_column_alias"], "dt_tables": tr}


# ------------------------------------------------------------------ case generation

def type_pool(run, sh):
    """(text, tag) of data types spelled from the parser-side rows of the C18 translator (never from Display)."""
    rng = run.rng
    thorough = run.tier == "thorough"
    leaves = []
    for v in C18.leaf_values(sh, thorough):
        t = C18.ref_text(sh, v)
        if t is not None and "\\" not in t and "'" not in t and '"' not in t and "`" not in t and "é" not in t:
            leaves.append(t)
    leaves = sorted(set(leaves))
    base = ["INT", "VARCHAR(10)", "DECIMAL(10, 2)", "TIMESTAMP WITH TIME ZONE", "DOUBLE PRECISION", "INT UNSIGNED", "x9", "BIGINT",
            "TEXT", "BOOLEAN", "DATE", "TIMESTAMP", "ENUM('s1', 's2')", "x8(1, 2)", "x8.x9"]
    wraps = ["ARRAY< %s >", "ARRAY<%s>", "%s[]", "%s[3]", "ARRAY(%s)", "NULLABLE(%s)", "LOWCARDINALITY(%s)", "MAP(INT, %s)", "MAP(%s, TEXT)",
             "STRUCT< %s >", "STRUCT<x1 %s>", "STRUCT<x1 INT, x2 %s>", "STRUCT(x1 %s)", "UNION(x1 %s)", "TUPLE(%s)", "TUPLE(x1 %s, x2 INT)",
             "NESTED(x1 %s)"]
    nested = []
    for b in base[:9]:
        for w in wraps:
            nested.append(w % b)
    for _ in range(400 if thorough else 80):
        t = rng.choice(base)
        for _ in range(rng.randrange(2, 4)):
            t = rng.choice(wraps[:8] + wraps[9:12]) % t
        nested.append(t)
    return {"leaves": leaves, "base": base, "nested": sorted(set(nested))}


def expr_pool(run, T):
    """Expressions of the C04 generator (atoms renamed to x<n>), per dialect; those the parser accepts entirely."""
    rng = run.rng

    class _Quick:
        tier = "quick"
    shim = _Quick()
    shim.rng = rng
    keep = {"single", "single-prefix", "pair", "interior", "paren", "triple"}
    per = 200 if run.tier == "thorough" else 50
    by_d = {d: [] for d in C04.DIALECTS}
    for c in C04.gen_cases(shim, T, only=lambda c: c["stream"] in keep):
        by_d[c["dialect"]].append(c)
    cases = []
    for d in C04.DIALECTS:
        for c in rng.sample(by_d[d], min(per, len(by_d[d]))):
            sql = re.sub(r"\by(\d+)\b", lambda m: "x%d" % (60 + int(m.group(1))), c["sql"])
            cases.append({"dialect": d, "sql": sql})
    res = run_bin_parallel(PKG, ["expr"], cases, pkg=PKG)
    pool = {d: {"ok": [], "bad": []} for d in C04.DIALECTS}
    for c, r in zip(cases, res):
        rs = r["result"]
        good = "ok" in rs and rs.get("rest") == 0
        pool[c["dialect"]]["ok" if good else "bad"].append(c["sql"])
    return pool


class Gen:
    def __init__(self, rng, epool, tpool):
        self.rng, self.epool, self.tpool, self.n = rng, epool, tpool, 0

    def name(self):
        self.n += 1
        return "x%d" % (self.n % 40 + 1)

    def word(self, p=0.1):
        return self.rng.choice(NAME_WORDS) if self.rng.random() < p else self.name()

    def oname(self, p=0.06):
        return ".".join(self.word(p) for _ in range(self.rng.choice([1, 1, 1, 2, 3])))

    def expr(self):
        r = self.rng.random()
        if r < 0.3:
            return self.rng.choice([self.name(), "7", "0", "'s1'", "42"])
        if r < 0.5:
            return self.rng.choice(["x1 = 1", "x2 + x3", "NOT x1", "(x1)", "x1 IS NULL", "- x2", "x1 AND x2 OR x3", "x1 > 0", "x1 >> 2",
                                    "x1 IN (1, 2)", "x1 BETWEEN 1 AND 2", "x1 LIKE 's1'", "(x1, x2)", "x1 :: INT", "x1 == x2", "x1 < x2 AND x2 > x3",
                                    "x1 LIKE x2 ESCAPE x3", "x1 IS DISTINCT FROM x2", "x1 IS NOT NULL", "1 + 2 * 3"])
        if r < 0.95 and self.epool["ok"]:
            return self.rng.choice(self.epool["ok"])
        if self.epool["bad"]:
            return self.rng.choice(self.epool["bad"])
        return self.name()

    def typ(self):
        r = self.rng.random()
        if r < 0.4:
            return self.rng.choice(self.tpool["base"])
        if r < 0.8:
            return self.rng.choice(self.tpool["leaves"])
        return self.rng.choice(self.tpool["nested"])

    def cols(self, p=0.05):
        return "(" + ", ".join(self.word(p) for _ in range(self.rng.choice([1, 1, 2, 3]))) + ")"

    def option(self, kind=None):
        k = kind or self.rng.choice(["notnull", "null", "default", "primary", "unique", "check", "ref", "refc", "refd"])
        s = {"notnull": "NOT NULL", "null": "NULL", "primary": "PRIMARY KEY", "unique": "UNIQUE"}.get(k)
        if k == "default":
            s = "DEFAULT " + self.expr()
        elif k == "check":
            s = "CHECK (" + self.expr() + ")"
        elif k == "ref":
            s = "REFERENCES " + self.oname()
        elif k == "refc":
            s = "REFERENCES " + self.oname() + " " + self.cols()
        elif k == "refd":
            s = "REFERENCES " + self.oname() + self.cols()
        return s

    def optdef(self, kind=None):
        pre = "CONSTRAINT %s " % self.word() if self.rng.random() < 0.2 else ""
        return pre + self.option(kind)

    def column(self, nopts=None):
        n = self.rng.choice([0, 1, 1, 2, 3, 4]) if nopts is None else nopts
        return " ".join([self.word(0.06), self.typ()] + [self.optdef() for _ in range(n)])

    def constraint(self, kind=None):
        k = kind or self.rng.choice(["primary", "unique", "check", "foreign"])
        pre = "CONSTRAINT %s " % self.word() if self.rng.random() < 0.4 else ""
        if k == "primary":
            return pre + "PRIMARY KEY " + self.cols()
        if k == "unique":
            return pre + "UNIQUE " + self.cols()
        if k == "check":
            return pre + "CHECK (" + self.expr() + ")"
        return pre + "FOREIGN KEY " + self.cols() + " REFERENCES " + self.oname() + " " + self.cols()

    def head(self):
        rng = self.rng
        return ("CREATE " + rng.choice(["", "", "", "OR REPLACE "]) + rng.choice(["", "", "", "TEMPORARY ", "TEMP "]) + "TABLE " +
                rng.choice(["", "", "", "IF NOT EXISTS "]) + self.oname())

    def table(self, ncols=None, ncons=None, mix=False):
        rng = self.rng
        ncols = rng.choice([1, 1, 2, 2, 3, 4]) if ncols is None else ncols
        ncons = rng.choice([0, 0, 0, 1, 1, 2]) if ncons is None else ncons
        els = [self.column() for _ in range(ncols)] + [self.constraint() for _ in range(ncons)]
        if mix:
            rng.shuffle(els)
        return self.head() + " (" + ", ".join(els) + ")"


def mutate(rng, sql):
    """A token-level edit: drop / duplicate a token, add a comma, or insert / append a stray word."""
    ts = sql.split(" ")
    r = rng.random()
    i = rng.randrange(len(ts))
    if r < 0.3 and len(ts) > 2:
        del ts[i]
    elif r < 0.45:
        ts.insert(i, ts[i])
    elif r < 0.6:
        ts.insert(i, ",")
    elif r < 0.8:
        ts.append(rng.choice([")", ";", "x9", ", x2", "WITH (x1 = 1)", "AS SELECT 1", "COMMENT 's1'", "STRICT", "ENGINE = x1", ";;"]))
    else:
        ts.insert(i, rng.choice(["(", ")", "NOT", "NULL", "KEY", "CONSTRAINT", "UNIQUE", "DEFAULT", "COLLATE x1", "ON DELETE CASCADE", "DEFERRABLE",
                                 "NOT DEFERRABLE", "INITIALLY DEFERRED", "COMMENT 's1'", "ASC", "AUTO_INCREMENT", "GENERATED ALWAYS AS (x1)", "USING BTREE"]))
    return " ".join(ts)


OPT_KINDS = ["notnull", "null", "default", "primary", "unique", "check", "ref", "refc"]
DIRECTED = [
    "CREATE TABLE x1 ()", "CREATE TABLE x1", "CREATE TABLE x1 (x2 INT)", "CREATE TABLE x1 (x2 INT);", "CREATE TABLE x1 (x2 INT);;",
    "CREATE TABLE x1 (x2 INT,)", "CREATE TABLE x1 (x2 INT, PRIMARY KEY (x2,))", "CREATE TABLE x1 (x2 INT, UNIQUE (x2, FROM))",
    "CREATE TABLE x1 (x2 INT, UNIQUE (x2, x3,), x4 TEXT)", "CREATE TABLE x1 (,)", "CREATE TABLE x1 (x2 INT,,)", "CREATE TABLE x1 (x2 INT x3 INT)",
    "CREATE TABLE x1 (PRIMARY KEY (x2))", "CREATE TABLE x1 (PRIMARY KEY (x2), x2 INT)", "CREATE TABLE x1 (UNIQUE (x2), x2 INT, CHECK (x2 > 0), x3 TEXT)",
    "CREATE TABLE x1 (x2 INT PRIMARY)", "CREATE TABLE x1 (x2 INT NOT)", "CREATE TABLE x1 (x2 INT NOT NULL NULL NOT NULL)", "CREATE TABLE x1 (x2 INT DEFAULT 1 DEFAULT 2)",
    "CREATE TABLE x1 (x2 INT DEFAULT x3 NOT NULL)", "CREATE TABLE x1 (x2 INT DEFAULT NOT x3 NOT NULL)", "CREATE TABLE x1 (x2 INT DEFAULT x3 NOT IN (1, 2) NOT NULL)",
    "CREATE TABLE x1 (x2 INT DEFAULT x3 IS NOT NULL)", "CREATE TABLE x1 (x2 INT DEFAULT x3 IS NOT NULL NOT NULL)", "CREATE TABLE x1 (x2 INT DEFAULT x3 NULL)",
    "CREATE TABLE x1 (x2 INT DEFAULT (1, 2), x3 INT)", "CREATE TABLE x1 (x2 INT DEFAULT 1, 2)", "CREATE TABLE x1 (x2 INT DEFAULT)", "CREATE TABLE x1 (x2 INT DEFAULT UNIQUE)",
    "CREATE TABLE x1 (x2 INT DEFAULT x3 UNIQUE)", "CREATE TABLE x1 (x2 INT DEFAULT x3 CHECK (x4))", "CREATE TABLE x1 (x2 INT DEFAULT x3 (x4))", "CREATE TABLE x1 (x2 INT CHECK x3)",
    "CREATE TABLE x1 (x2 INT CHECK (x3)", "CREATE TABLE x1 (x2 INT CHECK ())", "CREATE TABLE x1 (x2 INT CHECK (x3, x4))", "CREATE TABLE x1 (x2 INT CHECK (x3) (x4))",
    "CREATE TABLE x1 (x2 INT REFERENCES)", "CREATE TABLE x1 (x2 INT REFERENCES x3 ())", "CREATE TABLE x1 (x2 INT REFERENCES x3.)", "CREATE TABLE x1 (x2 INT REFERENCES x3 . x4 (x5))",
    "CREATE TABLE x1 (x2 INT REFERENCES x3 (x4) (x5))", "CREATE TABLE x1 (x2 INT REFERENCES x3 ON DELETE CASCADE)", "CREATE TABLE x1 (x2 INT REFERENCES x3 ON UPDATE SET NULL ON DELETE NO ACTION)",
    "CREATE TABLE x1 (x2 INT REFERENCES x3 ON x4)", "CREATE TABLE x1 (x2 INT REFERENCES x3 DEFERRABLE)", "CREATE TABLE x1 (x2 INT UNIQUE NOT DEFERRABLE)", "CREATE TABLE x1 (x2 INT UNIQUE NOT NULL)",
    "CREATE TABLE x1 (x2 INT PRIMARY KEY INITIALLY IMMEDIATE)", "CREATE TABLE x1 (x2 INT PRIMARY KEY ENFORCED)", "CREATE TABLE x1 (x2 INT PRIMARY KEY NOT ENFORCED)",
    "CREATE TABLE x1 (x2 INT CONSTRAINT x3)", "CREATE TABLE x1 (x2 INT CONSTRAINT x3 x4)", "CREATE TABLE x1 (x2 INT CONSTRAINT NOT NULL)", "CREATE TABLE x1 (x2 INT CONSTRAINT NOT NOT NULL)",
    "CREATE TABLE x1 (x2 INT CONSTRAINT x3 NOT NULL CONSTRAINT x4 UNIQUE)", "CREATE TABLE x1 (x2 INT COLLATE x3)", "CREATE TABLE x1 (x2 INT NOT NULL COLLATE x3)",
    "CREATE TABLE x1 (x2 INT COMMENT 's1')", "CREATE TABLE x1 (x2 INT CHARACTER SET x3)", "CREATE TABLE x1 (x2 INT CHARACTER)", "CREATE TABLE x1 (x2 CHARACTER SET x3)",
    "CREATE TABLE x1 (x2 INT MATERIALIZED x3)", "CREATE TABLE x1 (x2 INT ALIAS x3)", "CREATE TABLE x1 (x2 INT EPHEMERAL)", "CREATE TABLE x1 (x2 INT AUTO_INCREMENT)",
    "CREATE TABLE x1 (x2 INT AUTOINCREMENT)", "CREATE TABLE x1 (x2 INT ASC)", "CREATE TABLE x1 (x2 INT DESC)", "CREATE TABLE x1 (x2 INT ON UPDATE x3)", "CREATE TABLE x1 (x2 INT ON CONFLICT FAIL)",
    "CREATE TABLE x1 (x2 INT GENERATED)", "CREATE TABLE x1 (x2 INT GENERATED ALWAYS AS (x3))", "CREATE TABLE x1 (x2 INT OPTIONS (x3 = 1))", "CREATE TABLE x1 (x2 INT AS (x3))",
    "CREATE TABLE x1 (x2 INT IDENTITY)", "CREATE TABLE x1 (x2 INT IDENTITY (1, 1))",
    "CREATE TABLE x1 (x2)", "CREATE TABLE x1 (x2, x3 NOT NULL, x4 DEFAULT 1, x5 PRIMARY KEY)", "CREATE TABLE x1 (x2 x3)", "CREATE TABLE x1 (x2 NOT NULL)", "CREATE TABLE x1 (x2 NULL)",
    "CREATE TABLE x1 (x2 NOT)", "CREATE TABLE x1 (x2 UNIQUE)", "CREATE TABLE x1 (x2 DEFAULT)", "CREATE TABLE x1 (x2 REFERENCES x3)", "CREATE TABLE x1 (x2 CHECK (x3))", "CREATE TABLE x1 (x2 AS (x3))",
    "CREATE TABLE x1 (CONSTRAINT x2 PRIMARY KEY (x3))", "CREATE TABLE x1 (CONSTRAINT x2)", "CREATE TABLE x1 (CONSTRAINT x2 x3 INT)", "CREATE TABLE x1 (CONSTRAINT PRIMARY KEY (x3))",
    "CREATE TABLE x1 (CONSTRAINT x2 INDEX (x3))", "CREATE TABLE x1 (INDEX (x3))", "CREATE TABLE x1 (KEY x2 (x3))", "CREATE TABLE x1 (FULLTEXT (x3))", "CREATE TABLE x1 (CONSTRAINT x2 FULLTEXT (x3))",
    "CREATE TABLE x1 (UNIQUE KEY (x3))", "CREATE TABLE x1 (UNIQUE INDEX x2 (x3))", "CREATE TABLE x1 (UNIQUE x2 (x3))", "CREATE TABLE x1 (UNIQUE USING BTREE (x3))", "CREATE TABLE x1 (UNIQUE (x3) USING HASH)",
    "CREATE TABLE x1 (UNIQUE (x3) COMMENT 's1')", "CREATE TABLE x1 (UNIQUE (x3) DEFERRABLE)", "CREATE TABLE x1 (UNIQUE ())", "CREATE TABLE x1 (UNIQUE)", "CREATE TABLE x1 (UNIQUE x3)",
    "CREATE TABLE x1 (PRIMARY (x3))", "CREATE TABLE x1 (PRIMARY KEY x2 (x3))", "CREATE TABLE x1 (PRIMARY KEY (x3) NOT ENFORCED)", "CREATE TABLE x1 (PRIMARY KEY)",
    "CREATE TABLE x1 (FOREIGN KEY (x2) REFERENCES x3 (x4))", "CREATE TABLE x1 (FOREIGN KEY (x2) REFERENCES x3)", "CREATE TABLE x1 (FOREIGN KEY (x2) REFERENCES x3 (x4) ON DELETE CASCADE)",
    "CREATE TABLE x1 (FOREIGN KEY x2 REFERENCES x3 (x4))", "CREATE TABLE x1 (FOREIGN (x2) REFERENCES x3 (x4))", "CREATE TABLE x1 (FOREIGN KEY (x2) x3 (x4))", "CREATE TABLE x1 (FOREIGN KEY (x2) REFERENCES x3.x4.x5 (x6, x7))",
    "CREATE TABLE x1 (CHECK (x2 > 0))", "CREATE TABLE x1 (CHECK x2)", "CREATE TABLE x1 (CHECK (x2) x3)", "CREATE TABLE x1 (CHECK (x2)) x3",
    "CREATE OR REPLACE TABLE x1 (x2 INT)", "CREATE OR ALTER TABLE x1 (x2 INT)", "CREATE OR REPLACE OR ALTER TABLE x1 (x2 INT)", "CREATE LOCAL TABLE x1 (x2 INT)", "CREATE GLOBAL TEMPORARY TABLE x1 (x2 INT)",
    "CREATE LOCAL GLOBAL TABLE x1 (x2 INT)", "CREATE TRANSIENT TABLE x1 (x2 INT)", "CREATE TEMP TABLE x1 (x2 INT)", "CREATE TEMPORARY TEMP TABLE x1 (x2 INT)", "CREATE PERSISTENT TABLE x1 (x2 INT)",
    "CREATE TEMPORARY OR REPLACE TABLE x1 (x2 INT)", "CREATE TABLE IF NOT EXISTS x1 (x2 INT)", "CREATE TABLE IF EXISTS x1 (x2 INT)", "CREATE TABLE IF (x2 INT)", "CREATE TABLE IF NOT (x2 INT)",
    "CREATE TABLE x1.x2.x3 (x4 INT)", "CREATE TABLE x1. (x4 INT)", "CREATE TABLE x1-x2 (x4 INT)", "CREATE TABLE x1 - x2 (x4 INT)", "CREATE TABLE (x4 INT)", "CREATE TABLE 's1' (x4 INT)", "CREATE TABLE 7 (x4 INT)",
    "CREATE TABLE x1 ON CLUSTER x2 (x4 INT)", "CREATE TABLE x1 ON (x4 INT)", "CREATE TABLE x1 LIKE x2", "CREATE TABLE x1 CLONE x2", "CREATE TABLE x1 ILIKE x2", "CREATE TABLE LIKE (x2 INT)",
    "CREATE TABLE x1 (x2 INT) COMMENT 's1'", "CREATE TABLE x1 (x2 INT) WITHOUT ROWID", "CREATE TABLE x1 (x2 INT) WITHOUT", "CREATE TABLE x1 (x2 INT) WITH (x3 = 1)", "CREATE TABLE x1 (x2 INT) ENGINE = x3",
    "CREATE TABLE x1 (x2 INT) AS SELECT 1", "CREATE TABLE x1 AS SELECT 1", "CREATE TABLE x1 (x2 INT) STRICT", "CREATE TABLE x1 (x2 INT) ORDER BY x2", "CREATE TABLE x1 (x2 INT) PRIMARY KEY x2",
    "CREATE TABLE x1 (x2 INT) PARTITION BY x2", "CREATE TABLE x1 (x2 INT) ON COMMIT DROP", "CREATE TABLE x1 (x2 INT) DEFAULT CHARSET = x3", "CREATE TABLE x1 (x2 INT) COLLATE = x3", "CREATE TABLE x1 (x2 INT) AUTO_INCREMENT = 3",
    "CREATE TABLE x1 (x2 INT) x3", "CREATE TABLE x1 (x2 INT))", "CREATE TABLE x1 (x2 INT) ,", "CREATE TABLE x1 (x2 INT) (x3 INT)", "CREATE TABLE x1 (x2 INT); CREATE TABLE x3 (x4 INT)",
    "CREATE", "CREATE TABLE", "CREATE OR REPLACE", "CREATE VIEW x1 AS SELECT 1", "CREATE INDEX x1 ON x2 (x3)", "CREATE EXTERNAL TABLE x1 (x2 INT) STORED AS TEXTFILE", "SELECT 1", "DROP TABLE x1",
    "CREATE TABLE x1 (x2 ARRAY< ARRAY< ARRAY< INT > > > NOT NULL)", "CREATE TABLE x1 (x2 ARRAY<ARRAY<ARRAY<INT>>>)",
    "CREATE TABLE x1 (x2 ARRAY<ARRAY<INT>> NOT NULL)", "CREATE TABLE x1 (x2 ARRAY<ARRAY<INT>>, x3 INT)", "CREATE TABLE x1 (x2 ARRAY<ARRAY<INT>>[] DEFAULT x3 >> 1)", "CREATE TABLE x1 (x2 ARRAY<INT> DEFAULT x3 > x4)",
    "CREATE TABLE x1 (x2 INT DEFAULT x3 > > x4)", "CREATE TABLE x1 (x2 STRUCT<x3 ARRAY<INT>>)", "CREATE TABLE x1 (x2 INT[], x3 INT[3][], x4 TEXT [ ])", "CREATE TABLE x1 (x2 INT(11) UNSIGNED NOT NULL)",
    "CREATE TABLE x1 (x2 DECIMAL(10, 2) DEFAULT 1, x3 NUMERIC(5), x4 VARCHAR(10 CHARACTERS), x5 CHARACTER VARYING(3))", "CREATE TABLE x1 (x2 TIMESTAMP(3) WITH TIME ZONE NOT NULL, x3 TIME WITHOUT TIME ZONE, x4 TIMESTAMPTZ)",
    "CREATE TABLE x1 (x2 TIMESTAMP WITH, x3 INT)", "CREATE TABLE x1 (x2 DOUBLE PRECISION PRIMARY KEY, x3 DOUBLE, x4 NATIONAL CHARACTER(3))", "CREATE TABLE x1 (x2 x3.x4(1, 'a') NULL)", "CREATE TABLE x1 (x2 NOT NULL NULL)",
    "CREATE TABLE x1 (x2 INT DEFAULT x3 :: INT, x4 INT(3))", "CREATE TABLE x1 (x2 INT DEFAULT x3, x4 x5(3))", "CREATE TABLE x1 (x2 INT CHECK (x3 IN (x4, x5)), x6 TEXT)", "CREATE TABLE x1 (x2 INT DEFAULT x3[1], x4 INT[2])",
    "CREATE TABLE x1 (x2 INT DEFAULT x3 [1, x4 INT)", "CREATE TABLE x1 (x2 INT DEFAULT x3.x4)", "CREATE TABLE x1 (x2 INT DEFAULT x3(1))", "CREATE TABLE x1 (x2 INT DEFAULT NULL)", "CREATE TABLE x1 (x2 INT DEFAULT 1.5)",
    "CREATE TABLE x1 (x2 INT DEFAULT 007)", "CREATE TABLE x1 (x007 INT)", "CREATE TABLE x1 (\"x2\" INT)", "CREATE TABLE x1 (x2 INT DEFAULT \"x3\")", "CREATE TABLE x1 (x2 int not null)", "create table x1 (x2 INT)",
]


def ddl_cases(run, T, sh):
    rng = run.rng
    thorough = run.tier == "thorough"
    epool = expr_pool(run, T)
    tpool = type_pool(run, sh)
    cases = []
    add = lambda d, sql, stream: cases.append({"dialect": d, "sql": sql, "stream": stream})
    for d in C04.DIALECTS:
        g = Gen(rng, epool[d], tpool)
        # (i) every data type of the pool in a column, followed by the end of the list / an option / another column
        leaves = tpool["leaves"] if thorough else rng.sample(tpool["leaves"], min(20, len(tpool["leaves"])))
        for t in leaves + tpool["base"]:
            add(d, "CREATE TABLE x1 (x2 %s)" % t, "types")
            add(d, "CREATE TABLE x1 (x2 %s %s, x3 %s)" % (t, g.optdef(), t), "types")
        for t in (tpool["nested"] if thorough else rng.sample(tpool["nested"], min(30, len(tpool["nested"])))):
            add(d, "CREATE TABLE x1 (x2 %s%s)" % (t, rng.choice(["", " NOT NULL", ", x3 INT", " DEFAULT x4"])), "types")
        # (ii) every option, every ordered pair of options (named and not), longer sequences sampled
        for a in OPT_KINDS:
            add(d, "CREATE TABLE x1 (x2 INT %s)" % g.option(a), "options")
            add(d, "CREATE TABLE x1 (x2 INT CONSTRAINT x3 %s, x4 TEXT)" % g.option(a), "options")
            for b in (OPT_KINDS if thorough else rng.sample(OPT_KINDS, 5)):
                add(d, "CREATE TABLE x1 (x2 INT %s %s)" % (g.option(a), g.optdef(b)), "options")
        for _ in range(300 if thorough else 20):
            add(d, "CREATE TABLE x1 (%s)" % g.column(rng.choice([3, 4, 5])), "options")
        # (iii) every word of the list in every name position
        for w in (NAME_WORDS if thorough else NAME_WORDS[:9] + rng.sample(NAME_WORDS[9:], 3)):
            tmpl = ["CREATE TABLE %s (x2 INT)" % w, "CREATE TABLE x1.%s (x2 INT)" % w, "CREATE TABLE x1 (%s INT)" % w,
                    "CREATE TABLE x1 (x2 INT, %s TEXT NOT NULL)" % w, "CREATE TABLE x1 (x2 INT CONSTRAINT %s UNIQUE)" % w,
                    "CREATE TABLE x1 (x2 INT REFERENCES %s (%s))" % (w, w), "CREATE TABLE x1 (x2 INT REFERENCES %s, x3 INT)" % w,
                    "CREATE TABLE x1 (x2 INT, CONSTRAINT %s PRIMARY KEY (x2, %s))" % (w, w),
                    "CREATE TABLE x1 (x2 INT, UNIQUE (%s), FOREIGN KEY (%s, x2) REFERENCES %s (x3, %s))" % (w, w, w, w),
                    "CREATE TABLE x1 (x2 %s)" % w]
            for t in (tmpl if thorough else tmpl[2:4] + rng.sample(tmpl[:2] + tmpl[4:], 4)):
                add(d, t, "names")
        # (iv) directed texts: ends of lists, clause orders, keyword look-aheads, things outside the fragment
        few = (not thorough) and d in ("ansi", "databricks", "redshift", "snowflake")      # no dialect-specific branch of their own here
        for s in (rng.sample(DIRECTED, len(DIRECTED) // 4) if few else DIRECTED):
            add(d, s, "directed")
        # (v) every table-constraint kind alone, with columns, in both orders; random tables and their mutations
        for k in ["primary", "unique", "check", "foreign"]:
            add(d, "CREATE TABLE x1 (%s)" % g.constraint(k), "constraints")
            add(d, "CREATE TABLE x1 (x2 INT, %s)" % g.constraint(k), "constraints")
            add(d, "CREATE TABLE x1 (%s, x2 INT, %s)" % (g.constraint(k), g.constraint()), "constraints")
        n = 700 if thorough else 45
        for _ in range(n):
            t = g.table(mix=rng.random() < 0.15)
            add(d, t + rng.choice(["", "", "", ";"]), "random")
            if rng.random() < 0.4:
                add(d, mutate(rng, t), "mutated")
    seen, out = set(), []
    for c in cases:
        k = (c["dialect"], c["sql"])
        if k not in seen:
            seen.add(k)
            out.append(c)
    return out


# ------------------------------------------------------------------ encoding as Coq terms

class NotEncodable(ValueError):
    pass


class DEnc(C04.Enc):
    """Tokens and trees of the DDL core.  Expressions are C04.Enc trees (aligned against the expression-level token
    view), with the strict atom numbering of DdlCore.v: x<n> -> n (< 5000), numerals -> 5000 + value,
    's<n>' -> n, 'x<n>' -> 100000 + n; anything else is outside the alphabet."""

    def atom_id(self, text, string=False):
        m = re.fullmatch(r"([xs])(0|[1-9][0-9]*)", text)
        if string:
            if m and m.group(1) == "s" and int(m.group(2)) < 100000:
                return int(m.group(2))
            if m and m.group(1) == "x":
                return 100000 + int(m.group(2))
            raise NotEncodable("string literal outside the alphabet: %r" % text)
        if m and m.group(1) == "x" and int(m.group(2)) < 5000:
            return int(m.group(2))
        if NUM_RE.match(text) and int(text) <= U64:
            return 5000 + int(text)
        raise NotEncodable("atom outside the alphabet: %r" % text)

    def dtok(self, t):
        k = t[0]
        if k == "w":
            up = t[1].upper()
            if t[1] != up and (up in C04.KW or up in ("AND", "OR", "XOR")):
                return "TT (DT.TOther 0)"      # a keyword of the expression alphabet in another spelling: outside the alphabet
            if re.fullmatch(r"[A-Za-z_][A-Za-z0-9_]*", t[1]):
                return 'TW "%s"' % t[1]
            return "TT (DT.TWord %s)" % coq_str(t[1])
        if k == "q":
            return "TT (DT.TQWord %d %s)" % (ord(t[2]), coq_str(t[1]))
        if k == "n":
            if NUM_RE.match(t[1]) and int(t[1]) <= U64:
                return "TT (DT.TNum %s)" % t[1]
            return "TT (DT.TOther 0)"
        if k == "s":
            return "TT (DT.TStr %s)" % coq_str(t[1])
        n = t[1]
        if n in PUNCT:
            return "TT %s" % PUNCT[n]
        if n in EXTRA_CODES:
            return "TT (DT.TOther %d)" % EXTRA_CODES[n]
        if n in self.kid and (43 <= self.kid[n] <= 90 or n in ("DoubleColon", "ExclamationMark", "SemiColon")):
            return "TT (DT.TOther %d)" % self.kid[n]
        return "TT (DT.TOther 0)"

    def dtoks(self, view):
        return "[" + "; ".join(self.dtok(t) for t in view) + "]"

    # ---- trees
    def word(self, ident):
        if ident["q"] is not None:
            raise NotEncodable("quoted identifier")
        return "(%s)" % self.dtok(["w", ident["v"]])

    def words(self, l):
        return "[" + "; ".join(self.word(i) for i in l) + "]"

    def create(self, sh, n, ctokens):
        self.v = ctokens
        # candidate starts of expressions, in text order: after DEFAULT, after CHECK (
        starts = []
        for i, t in enumerate(ctokens):
            if t == ["other", "DEFAULT"]:
                starts.append(i + 1)
            elif t == ["other", "CHECK"] and i + 1 < len(ctokens) and ctokens[i + 1] == ["p", "LParen"]:
                starts.append(i + 2)
        # Display prints columns before constraints, the input may interleave them: expressions are matched in text
        # order separately for each tree, so encode in text order = first try the candidates in order for each
        # expression of the columns and constraints as they come; a wrong guess fails on the atoms
        exprs = []
        for c in n["columns"]:
            for o in c["options"]:
                if o["opt"]["k"] in ("default", "check"):
                    exprs.append(o["opt"])
        for c in n["constraints"]:
            if c["k"] == "check":
                exprs.append(c)
        enc = {}
        for holder in exprs:
            cand = [p for p in starts]
            term = None
            err = None
            for p in cand:
                self.pos = p
                try:
                    term = self.conv(holder["e"])
                except NotEncodable:
                    raise
                except (ValueError, KeyError, IndexError) as e:
                    err = e
                    continue
                starts.remove(p)
                break
            if term is None:
                raise ValueError("alignment: no position for an expression (%s)" % err)
            enc[id(holder)] = term

        def opt(o):
            k = o["k"]
            if k in ("default", "check"):
                return "(%s %s)" % ("ODefault" if k == "default" else "OCheck", enc[id(o)])
            if k == "references":
                return "(OReferences %s %s)" % (self.words(o["table"]), self.words(o["cols"]))
            return {"notnull": "ONotNull", "null": "ONull", "primary": "OPrimaryKey", "unique": "OUnique"}[k]

        def oname(x):
            return "None" if x is None else "(Some %s)" % self.word(x)

        cols = []
        for c in n["columns"]:
            try:
                ty = C18.c_dt(sh, c["type"])
            except C18.NotInFragment as e:
                raise NotEncodable(str(e))
            os_ = "; ".join("{| oname := %s; oopt := %s |}" % (oname(o["name"]), opt(o["opt"])) for o in c["options"])
            cols.append("{| cname := %s; ctype := %s; coptions := [%s] |}" % (self.word(c["name"]), ty, os_))
        cons = []
        for c in n["constraints"]:
            k = c["k"]
            if k == "primary":
                b = "(TPrimaryKey %s)" % self.words(c["cols"])
            elif k == "unique":
                b = "(TUnique %s)" % self.words(c["cols"])
            elif k == "check":
                b = "(TCheck %s)" % enc[id(c)]
            else:
                b = "(TForeignKey %s %s %s)" % (self.words(c["cols"]), self.words(c["table"]), self.words(c["rcols"]))
            cons.append("{| tname := %s; tbody := %s |}" % (oname(c["name"]), b))
        return ("{| or_replace := %s; temporary := %s; if_not_exists := %s; tbl_name := %s; columns := [%s]; constraints := [%s] |}"
                % (coq_bool(n["or_replace"]), coq_bool(n["temporary"]), coq_bool(n["if_not_exists"]), self.words(n["name"]),
                   "; ".join(cols), "; ".join(cons)))


def encode_case(T, sh, c, r):
    d = c["dialect"]
    if r["tokens"] is None:
        return None
    enc = DEnc(T, d)
    ts = enc.dtoks(r["tokens"])
    rs = r["result"]
    impl = "DIErr"
    if "ok" in rs:
        impl = "DIBad"
        if rs["ok"] != "out_of_fragment":
            again = rs["again"]
            try:
                term = enc.create(sh, rs["ok"], r["ctokens"])
                pt = enc.dtoks(again["ptokens"]) if "ptokens" in again else "[TT (DT.TOther 0)]"
                impl = "(DIOk %s %s)" % (term, pt)
            except (ValueError, KeyError, IndexError) as e:
                c["align_error"] = str(e)
    elif "panic" in rs:
        impl = "DIBad"
    return "(dd_%s, %s, %s)" % (d, ts, impl)


def pg_triple_gt(c, rs):
    """C18's class angle-close:pg-triple-gt seen through CREATE TABLE: PostgreSQL lexes the `>>>` that closes three
    nested angle-bracket types (printed without blanks) as one custom operator token."""
    if c["dialect"] == "postgresql" and isinstance(rs, dict) and ">>>" in (rs.get("text") or ""):
        return "angle-close:pg-triple-gt"
    return None


CHECK_FN = "(fun c => match c with (d, ts, i) => dcase_full d ts i end)"
CASE_TYPE = "(ddialect * list dtok * dires)"
BITS = {1: "model-parser-vs-parse_sql", 2: "dtoks-vs-printed-tokens", 4: "model-roundtrip", 16: "dwf-of-accepted-tree"}
# counted, not errors: 32 = the printed tokens fail the syntactic fragment test dfrag; 64 = a column type outside the proved
# part of the C18 round trip (STRUCT, MAP, ENUM, custom types ..): the theorem says nothing about these trees


def check_ddl(run, prop="C01", tables=None):
    t0 = time.time()
    note = {}
    run.notes["ddl_core"] = note
    tables = tables or gen_ddl_tables()
    note["flags"] = tables["flags"]
    if tables["flag_probe_mismatch"]:
        note["flag_probe_mismatch"] = tables["flag_probe_mismatch"]
    T = C04.gen_tables(run)
    sh = C18.Shapes(tables["dt_tables"])
    ok, out = coq_make(["theories/DdlCoreProofs.vo", "gen/DdlTables.vo"])
    if not ok:
        run.violation({"what": "the DDL-core model does not build", "unchecked": "DdlCore correspondence",
                       "tool_output": failing_coq_item(out)}, no_input=True)
        return note
    known = dict(known_findings(prop))
    cases = ddl_cases(run, T, sh)
    res = run_bin_parallel(PKG, ["ddl"], cases, pkg=PKG)
    terms, idx = [], []
    stats = {"cases": len(cases), "accepted": 0, "rejected": 0, "create_tables": 0, "trees_in_fragment": 0,
             "impl_roundtrip_fail": 0, "streams": {}}
    viol = {}

    def report(key, rep, **kw):
        full = "ddl:" + key
        if full in known:
            run.known(full, known[full])
            stats.setdefault("by_key", {})
            stats["by_key"][full] = stats["by_key"].get(full, 0) + 1
        else:
            viol[key] = viol.get(key, 0) + 1
            if viol[key] <= 6:
                run.violation(dict(rep, key=full), **kw)

    for i, (c, r) in enumerate(zip(cases, res)):
        st = stats["streams"].setdefault(c["stream"], {"cases": 0, "accepted": 0, "compared": 0})
        st["cases"] += 1
        rs = r["result"]
        if "ok" in rs:
            stats["accepted"] += 1
            st["accepted"] += 1
            if rs.get("kind") == "CreateTable":
                stats["create_tables"] += 1
                again = rs["again"]
                # the property itself on the implementation
                good = again.get("same") is True and again.get("text2") == rs["text"]
                if not good:
                    stats["impl_roundtrip_fail"] += 1
                    report(pg_triple_gt(c, rs) or "impl-roundtrip", {"what": "an accepted CREATE TABLE does not survive parse -> print -> parse", "dialect": c["dialect"],
                                              "input": c["sql"], "printed": rs["text"],
                                              "reparse": {k: again.get(k) for k in ("same", "err", "tokerr", "panic", "text2", "n")}})
        elif "tokerr" not in rs:
            stats["rejected"] += 1
        t = encode_case(T, sh, c, r)
        if t is not None:
            terms.append(t)
            idx.append(i)
            if "DIOk" in t:
                stats["trees_in_fragment"] += 1
    codes = C04.run_coq_codes("c01ddl", HEADER, terms, CHECK_FN, CASE_TYPE, shard_size=max(150, len(terms) // 16 + 1))
    cnt = {v: 0 for v in BITS.values()}
    compared = 0
    for i, cd in zip(idx, codes):
        c, r = cases[i], res[i]
        if cd & 8:
            continue
        compared += 1
        stats["streams"][c["stream"]]["compared"] += 1
        for b, name in BITS.items():
            if cd & b:
                k3 = pg_triple_gt(c, r["result"]) if b in (2, 4) else None
                if k3:
                    # the printed text is not lexed into the type's own tokens: the implementation-side class above, not a model matter
                    stats["model_mismatch_in_known_class"] = stats.get("model_mismatch_in_known_class", 0) + 1
                    report(k3, {"what": "printed `>>>` is one token in PostgreSQL", "dialect": c["dialect"], "input": c["sql"]})
                    continue
                cnt[name] += 1
                report("model:" + name, {"what": "DDL-core model check failed: " + name, "unchecked": "correspondence DdlCore (" + name + ")",
                                         "dialect": c["dialect"], "input": c["sql"], "observed": r["result"].get("text") or r["result"],
                                         "alignment": c.get("align_error")}, no_input=True)
    stats["in_fragment"] = compared
    stats["outside_fragment"] = len(terms) - compared
    stats["accepted_in_fragment"] = sum(1 for i, cd in zip(idx, codes) if not cd & 8 and "ok" in res[i]["result"])
    stats["rejected_in_fragment"] = sum(1 for i, cd in zip(idx, codes) if not cd & 8 and "ok" not in res[i]["result"])
    stats["outside_syntactic_fragment_test"] = sum(1 for cd in codes if cd & 32 and not cd & 8)
    stats["types_outside_proved_part"] = sum(1 for cd in codes if cd & 64 and not cd & 8)
    stats["theorem_instances"] = sum(1 for i, cd in zip(idx, codes) if not cd & (8 | 16 | 32 | 64) and "ok" in res[i]["result"])
    stats["alignment_failures"] = sum(1 for c in cases if "align_error" in c)
    stats["model_checks_failed"] = cnt
    stats["disagreements"] = sum(cnt.values())
    stats["wall_s"] = round(time.time() - t0, 1)
    note.update(stats)
    run.add_eval(len(cases), compared)
    for c, r in list(zip(cases, res))[-3:-1]:
        run.sample({"ddl_core": c["sql"], "dialect": c["dialect"], "printed": r["result"].get("text", r["result"])})
    log(f"[{prop}] DDL core: {len(cases)} cases, {compared} compared in the kernel, {stats['disagreements']} model disagreements, "
        f"{stats['impl_roundtrip_fail']} implementation round-trip failures, {stats['wall_s']}s")
    return note
