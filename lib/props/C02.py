"""C02 — tokenizing, parsing and printing never panic or stall on any input."""
import json
from common import *
from lexlib import *
from corpus import corpus

TEMPLATES = ["parens", "position", "position_fn", "func", "case", "subquery", "derived", "derived_select", "derived_join", "array", "bracket", "not", "neg",
             "cast", "interval", "interval_paren", "extract", "substring", "trim", "ceil", "overlay", "exists", "struct", "map", "dict", "convert",
             "join_parens", "in_list", "tuple", "between", "window", "lambda", "lambda_paren", "paren_tuple_lambda", "typed_paren", "explain", "explain_paren",
             "datatype_array", "datatype_struct", "pattern", "pattern_alt", "prior", "union_paren", "cte", "subscript"]


def gen_all(run):
    gen_dialect_tables()


def ladders(run):
    """Work growth under nesting: steps(n) counted by the cursor/guard hook. Exponential growth =
    ratio >= 1.8 for three consecutive depths with steps > 5000."""
    ds = DIALECTS if run.tier == "thorough" else ["generic", "mysql", "snowflake"]
    cases = [{"dialect": d, "template": t, "n": n} for d in ds for t in TEMPLATES for n in range(2, 15)]
    # failing variants (the nest cut at its innermost point): a speculative parse that fails only at the very end and
    # is then repeated by the fallback doubles the work per level; all dialects, since speculation sits behind dialect gates
    cases += [{"dialect": d, "template": t, "n": n, "fail": True} for d in DIALECTS for t in TEMPLATES for n in range(2, 15)]
    res = run_bin_parallel("drive", ["ladder"], cases, timeout=600)
    by = {}
    for c, r in zip(cases, res):
        by.setdefault((c["dialect"], c["template"] + (":fail" if c.get("fail") else "")), []).append((c["n"], r))
    found = {}
    worst_poly = 0.0
    for (d, t), rows in by.items():
        rows.sort()
        steps = [(n, r.get("steps", 0)) for n, r in rows if r["status"] in ("ok", "error", "limit")]
        for n, r in rows:
            if r["status"] == "panic":
                found[("panic", t, d)] = {"template": t, "dialect": d, "n": n, "panic": r.get("panic")}
        streak = 0
        for (n0, s0), (n1, s1) in zip(steps, steps[1:]):
            if s0 > 5000 and s1 >= 1.8 * s0:
                streak += 1
                if streak >= 3:
                    found[("exp", t, d)] = {"template": t, "dialect": d, "n": n1, "steps": [s for _, s in steps]}
                    break
            else:
                streak = 0
        if steps and ("exp", t, d) not in found:
            n, s = steps[-1]
            worst_poly = max(worst_poly, s / float(n * n * n + 50))
    return cases, found, worst_poly


def check(run):
    run.cov["rule"] = ("stress: every corpus text under an accepting dialect (thorough: all accepting dialects, every truncation at a token boundary) plus random token-level mutants "
                       "(truncate, delete, duplicate, substitute/insert hostile fragments incl. NUL, NBSP, astral) x option sets {unescape, trailing commas, recursion limits 0,1,2,7,default}; "
                       "each run tokenizes, parses, and prints/debug-formats/clones/compares every returned statement under catch_unwind. Ladders: 38 nesting templates x depth 2..14 x dialects, "
                       "work measured by the cfg-guarded step counter. Panic-site ledger: static inventory compared with the pinned list. non-trivial = variant different from its source text")
    run.cov["checker_cmd"] = "make -C coq Properties/C02.vo + coqc on generated case files (vm_compute)"
    run.cov["trusted_base"] = TRUSTED_BASE_COMMON + [
        "modelled rather than verified: the tokenizer (Lexer.v); theorems cover the lexer only (totality, progress, no out-of-fuel, the single possible panic excluded for built-in dialects) and an abstract recurrence lemma",
        "parser/printer no-panic and the polynomial-work clause are explored on the implementation (stress + ladders + ledger), not proved",
        "hook: cfg(sqlparser_verif) step counter in Parser::next_token/peek_nth_token/prev_token and RecursionCounter::try_decrease",
    ]
    tables, _ = gen_dialect_tables()
    pr = prove("C02")
    run.cov["obligations"] = pr["statements"]
    run.cov["discharged"] = pr["statements"] if pr["ok"] else 0
    run.notes["print_assumptions"] = {"closed_under_global_context": pr["closed"], "axioms": pr["axioms"]}
    run.notes["cone"] = pr["cone"]
    known = dict(known_findings("C02"))
    viol = 0

    # 1. panic-site ledger
    inv = run_bin("extract", ["panics", REPO])[0]
    pinned = set(json.load(open(os.path.join(VERIF, "pins", "C02_panic_sites.json")))["sites"])
    now = {s["key"] for s in inv["sites"]}
    new_sites = sorted(now - pinned)
    run.notes["panic_ledger"] = {"sites_now": len(now), "pinned": len(pinned), "new": new_sites[:20], "gone": len(pinned - now), "unparsed_files": inv["unparsed"]}
    # `_ => unreachable!()` arms after a keyword-list parse: the list and the arms must coincide
    kwm = inv.get("unreachable_keyword_matches", [])
    not_covered = [x for x in kwm if x["verdict"] == "NOT-covered"]
    unknown = sorted("%s::%s#%d" % (x["file"], x["fn"], x["ordinal"]) for x in kwm if x["verdict"] == "unknown-origin")
    REVIEWED_UNKNOWN = ["src/parser/mod.rs::parse_prefix#0", "src/parser/mod.rs::parse_wildcard_expr#0"]  # match on a token kind bound by the enclosing arm
    run.notes["unreachable_keyword_matches"] = {"covered": sum(1 for x in kwm if x["verdict"] == "covered"), "not_covered": not_covered, "unknown_origin": unknown}
    extra_keywords = sorted({k for x in not_covered for k in (x["list"] or []) if k not in x["arms"]})
    for u in inv["unparsed"]:
        run.violation({"what": "source file could not be parsed by the translator", "unchecked": "panic-site ledger: " + u}, no_input=True)

    # 2. stress search
    cases = []
    for e in corpus():
        ds = e["dialects"] if run.tier == "thorough" else [run.rng.choice(e["dialects"])]
        for d in ds:
            cases.append({"dialect": d, "sql": e["sql"], "seed": run.rng.randrange(1 << 30), "mutants": 30 if run.tier == "thorough" else 10,
                          "all_truncations": run.tier == "thorough" or run.rng.random() < 0.15})
    hostile = ["", "\x00", "'", "\"", "`", "$$", "/*", "--", "\\", "SELECT", "SELECT ", "SELECT (", "SELECT 1 DIV", "FLUSH RELAY LOGS FOR CHANNEL", "GRANT a ON b TO c GRANTED BY",
               "CREATE EXTERNAL TABLE t (a INT)", "SELECT * FROM t MATCH_RECOGNIZE(", "COPY t FROM STDIN;\n1\t2\n\\.", "SELECT $", "SELECT $1$", "SELECT U&'\\", "SELECT E'\\", "SELECT 0x", "SELECT 1e",
               "DECLARE", "DECLARE @", "SET", "SHOW", "KILL", "ALTER TABLE t", "CREATE", "INSERT INTO t VALUES", "WITH", "EXPLAIN", "BEGIN", "CALL", "a b", "\U0001F600", "SELECT * FROM t AS OF",
               "CREATE SEQUENCE s OWNED BY", "CREATE SEQUENCE s", "COPY INTO t FROM @s", "CREATE STAGE s URL=", "SELECT INTERVAL", "SELECT INTERVAL '1'", "LOCK TABLES", "UNLOCK"]
    for kw in extra_keywords:
        # directed search: splice the uncovered keyword after every keyword-ish token of statements of that family
        for e in corpus():
            toks = e["sql"].split()
            for i in range(1, min(len(toks), 12)):
                hostile.append(" ".join(toks[:i] + [kw] + toks[i:]))
                hostile.append(" ".join(toks[:i] + [kw] + toks[i + 1:]))
        hostile = hostile[:len(hostile)] if len(hostile) < 60000 else run.rng.sample(hostile, 60000)
    for h in hostile:
        for d in (DIALECTS if run.tier == "thorough" else run.rng.sample(DIALECTS, 4)):
            cases.append({"dialect": d, "sql": h, "seed": run.rng.randrange(1 << 30), "mutants": 6, "all_truncations": True})
    res = run_bin_parallel("drive", ["stress"], cases, timeout=1500, on_fail="mark", case_timeout=60 if run.tier == "quick" else 150)
    for c, r in zip(cases, res):
        if r["status"] in ("hang", "crash"):
            cur = {}
            try:
                cur = json.loads(r.get("current") or "{}")
            except ValueError:
                pass
            viol += 1
            if viol <= 8:
                run.violation({"what": "parsing does not return" if r["status"] == "hang" else "the process died while parsing (stack overflow / abort)",
                               "dialect": c["dialect"], "input": cur.get("variant", c["sql"]), "options": {k: cur.get(k) for k in ("unescape", "trailing_commas", "limit")},
                               "observed": {k: r.get(k) for k in ("status", "harness", "seconds", "stderr")}, "derived_from": c["sql"], "seed": c["seed"]})
    runs = sum(r.get("runs", 0) for r in res)
    variants = sum(r.get("variants", 0) for r in res)
    worst = max((r.get("max_steps_per_char", 0), r.get("worst", "")) for r in res)
    panics = {}
    for c, r in zip(cases, res):
        if r["status"] == "panic":
            key = "panic:" + r["panic"][:70]
            panics.setdefault(key, (c, r))
    for key, (c, r) in panics.items():
        hit = [k for k in known if k.startswith("panic:") and k[6:] in r["panic"].replace(" ", "-")]
        if hit:
            run.known(hit[0], known[hit[0]])
        else:
            viol += 1
            if viol <= 8:
                run.violation({"what": "panic", "dialect": c["dialect"], "input": r["variant"], "options": {"unescape": r["unescape"], "trailing_commas": r["trailing_commas"], "limit": r["limit"]},
                               "observed": r["panic"], "derived_from": c["sql"]})
    run.add_eval(runs, variants)
    run.notes["stress"] = {"texts": len(cases), "variants": variants, "runs": runs, "distinct_panics": len(panics), "max_steps_per_char": worst[0], "worst_input": worst[1][:200]}
    run.sample({"stress_text": cases[0]["sql"], "dialect": cases[0]["dialect"], "result": res[0]})
    if worst[0] > 3000 and "exponential:" not in " ".join(known):
        run.violation({"what": "parsing work out of proportion to the input length", "input": worst[1], "observed": "steps per character = %.0f" % worst[0]})

    # 3. ladders
    lcases, found, worst_poly = ladders(run)
    run.add_eval(len(lcases), len(lcases))
    run.notes["ladders"] = {"runs": len(lcases), "templates": len(TEMPLATES), "exponential_or_panic": sorted("%s:%s:%s" % k for k in found), "max_steps_over_n3": worst_poly}
    seen_keys = set()
    for (kind, t, d), info in sorted(found.items()):
        # a failing variant exercises the same speculation site as its template (POSITION's `expr IN expr` attempt, the
        # typed-string attempt in front of INTERVAL): filed under the same call site
        base = t[:-5] if t.endswith(":fail") else t
        if t.endswith(":fail") and kind == "exp":
            base = {"interval_paren": "interval", "position": "position_fn"}.get(base, base)
        key = ("exponential:" if kind == "exp" else "ladder-panic:") + base
        if key in known:
            run.known(key, known[key])
        elif key not in seen_keys:
            seen_keys.add(key)
            viol += 1
            run.violation({"what": "work doubles with every nesting level" if kind == "exp" else "panic on nested input", "template": t, "dialect": d,
                           "input": "nest_text(%r, %d) of harness/vh/src/bin/drive.rs%s" % (base if t.endswith(":fail") else t, info["n"], " cut at its innermost point + ' +'" if t.endswith(":fail") else ""), "observed": info})

    # 3b. very deep nests: every template at a depth far beyond any stack, one driver per case group; the process
    # must come back with a value, an error or the limit error (an abort / stack overflow kills the driver: "crash")
    dcases = [{"dialect": d, "template": t, "n": n} for t in TEMPLATES for d in (DIALECTS if run.tier == "thorough" else ["generic", "snowflake"])
              for n in ((3000, 60000) if run.tier == "thorough" else (60000,))]
    dres = run_bin_parallel("drive", ["deep"], dcases, timeout=900, on_fail="mark", case_timeout=120, shards=NCPU)
    dstat = {}
    for c, r in zip(dcases, dres):
        dstat[r["status"]] = dstat.get(r["status"], 0) + 1
        if r["status"] in ("crash", "hang", "panic"):
            key = "deep:" + c["template"]
            if key in known:
                run.known(key, known[key])
            elif ("exponential:" + c["template"]) in known and r["status"] == "hang":
                run.known("exponential:" + c["template"], known["exponential:" + c["template"]])
            else:
                viol += 1
                if viol <= 8:
                    run.violation({"what": {"crash": "the process died while parsing a deeply nested input (stack overflow / abort)", "hang": "parsing a deeply nested input does not return",
                                            "panic": "panic on a deeply nested input"}[r["status"]],
                                   "template": c["template"], "dialect": c["dialect"],
                                   "input": "nest_text(%r, %d) of harness/vh/src/bin/drive.rs" % (c["template"], c["n"]), "observed": {k: r.get(k) for k in ("status", "harness", "stderr")}})
    run.add_eval(len(dcases), sum(1 for r in dres if r["status"] in ("ok", "error", "limit")))
    run.notes["deep_nests"] = {"cases": len(dcases), "depths": sorted({c["n"] for c in dcases}), "outcomes": dstat}

    for x in not_covered:
        if viol == 0:
            run.violation({"what": "a keyword accepted by parse_one_of_keywords has no arm: the `_ => unreachable!()` arm is reachable",
                           "unchecked": "unreachable-arm coverage %s::%s#%d" % (x["file"], x["fn"], x["ordinal"]), "keyword_list": x["list"], "arms": x["arms"]}, no_input=True)
    for k in unknown:
        if k not in REVIEWED_UNKNOWN and viol == 0:
            run.violation({"what": "an `_ => unreachable!()` arm whose scrutinee the translator cannot relate to a keyword list", "unchecked": "unreachable-arm coverage " + k}, no_input=True)
    # 4. new panic sites: directed search already ran (stress covers all statement kinds of the corpus); none found -> obligation
    if new_sites and viol == 0:
        run.violation({"what": "panic site(s) not in the pinned ledger and not discharged", "unchecked": "panic-site ledger (pins/C02_panic_sites.json)", "new_sites": new_sites[:20]}, no_input=True)

    # 5. lexer model correspondence on hostile strings
    comment_ends = [pre + body + end for pre in ("--", "//", "#", "/*") for body in ("", "c", " c ") for end in ("", "\r", "\n", "\r\n", "\r\rx", "\u2028", "\x0b", "\x0c", "*/", "*")]
    lt = [h for h in hostile] + comment_ends + ["a " + c + "b" for c in comment_ends] + ["".join(run.rng.choice(INTERESTING) for _ in range(run.rng.randrange(1, 9))) for _ in range(400 if run.tier == "quick" else 4000)]
    lcs = spread(run.rng, lt, per_text=2)
    lcs += [{"dialect": dn, "sql": c, "unescape": True} for c in comment_ends for dn in DIALECTS]
    try:
        lres, bad, inexpr = lex_correspondence(run, lcs, "c02")
        run.notes["correspondence_lexer_hostile"] = {"cases": len(lcs), "disagreements": len(bad), "not_expressible": len(inexpr)}
        run.add_eval(len(lcs), len({(c["dialect"], c["sql"], c["unescape"]) for c in lcs}))
        for i in inexpr[:3]:
            if "panic" in lres[i]:
                viol += 1
                run.violation({"what": "tokenizer panic", "dialect": lcs[i]["dialect"], "input": lcs[i]["sql"], "observed": lres[i]["panic"]})
        for i in bad[:5]:
            if viol == 0:
                run.violation({"what": "lexer model and Tokenizer disagree on a hostile input", "unchecked": "correspondence lexer (hostile stream)", "input": lcs[i], "observed": lres[i]}, no_input=True)
    except RuntimeError as e:
        run.violation({"what": "model evaluation failed", "unchecked": "correspondence lexer", "tool_output": str(e)[-2000:]}, no_input=True)
    if not pr["ok"] and viol == 0:
        run.violation({"what": "a proof obligation of C02 no longer checks", "unchecked": failing_coq_item(pr["output"]),
                       "forbidden": pr["forbidden"], "axioms": pr["axioms"]}, no_input=True)


def replay(path):
    r = json.load(open(path))
    print(json.dumps(r, indent=1, ensure_ascii=False))
    if isinstance(r.get("input"), str) and r.get("dialect") and "template" not in r:
        now = run_bin_parallel("drive", ["stress"], [{"dialect": r["dialect"], "sql": r["input"], "mutants": 0}], on_fail="mark", case_timeout=30)[0]
        print("now:", now)
        return 0 if now.get("status") == "ok" else 1
    return 0
