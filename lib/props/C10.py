"""C10 — errors are values that point at a real token of the input."""
import json
from common import *
from lexlib import *
from corpus import corpus


def gen_all(run):
    gen_dialect_tables()


def check(run):
    run.cov["rule"] = ("rejected inputs: token-level mutants (truncate at a token boundary, delete, duplicate, substitute with hostile fragments) of every corpus text under an accepting dialect; "
                       "for each mutant: parse twice (determinism), classify the error kind against what the tokenizer alone says, parse the fixed ' at Line: l, Column: c' suffix, "
                       "require the position to be a token start (lexical: a character position or one past the end), require 'found: T' to be the text of the token starting there, "
                       "and end-of-input errors to carry no position. Lexer level additionally through the model. non-trivial = mutant that is rejected")
    run.cov["checker_cmd"] = "make -C coq Properties/C10.vo + coqc on generated case files (vm_compute)"
    run.cov["trusted_base"] = TRUSTED_BASE_COMMON + [
        "modelled rather than verified: the tokenizer (Lexer.v) incl. where each error is located",
        "parser-level clauses (position is a token start, found-token coupling, kind, determinism) are sampled on the implementation, not proved",
    ]
    tables, _ = gen_dialect_tables()
    pr = prove("C10")
    run.cov["obligations"] = pr["statements"]
    run.cov["discharged"] = pr["statements"] if pr["ok"] else 0
    run.notes["print_assumptions"] = {"closed_under_global_context": pr["closed"], "axioms": pr["axioms"]}
    run.notes["cone"] = pr["cone"]
    known = dict(known_findings("C10"))

    cases = []
    for e in corpus():
        ds = e["dialects"] if run.tier == "thorough" else [run.rng.choice(e["dialects"])]
        for d in ds:
            cases.append({"dialect": d, "sql": e["sql"], "seed": run.rng.randrange(1 << 30), "mutants": 24 if run.tier == "thorough" else 10})
    # texts the tokenizer rejects (also fed, further down, through the lexer model)
    bad_texts = ["'abc", "\"abc", "/* x", "$t$ abc", "$$ab", "E'ab", "U&'ab", "U&'\\00zz'", "U&'\\+00zz'", "U&'\\D800'", "U&'\\+110000'", "U&'\\00",
                 "a\n 'b", "a\n\n/* b\n c", "`abc", "[abc", "'''abc", "N'ab", "x'ab", "select 'a\n", "U&'ab\\", "U&'\\00\n1'", "U&'\\+0000\n'", "U&'\\\n", "U&'\\0\n\n", "E'\n\\", "'a\n\\"]
    lt = []
    for s in bad_texts:
        lt.append(s)
        lt.append("SELECT 1;\n" + s)
        lt.append("é\U0001F600\n\t" + s)
    for s_ in lt:
        for d in ("generic", "postgresql", "mysql", "bigquery"):
            cases.append({"dialect": d, "sql": s_, "seed": run.rng.randrange(1 << 30), "mutants": 2})
    res = run_bin_parallel("drive", ["errprop"], cases)
    stat = {}
    rejected = 0
    viol = 0
    for c, r in zip(cases, res):
        stat[r["status"]] = stat.get(r["status"], 0) + 1
        rejected += r.get("rejected", 0)
        if r["status"] == "panic":
            # a panic is C02's subject; here it only means the error was not a value
            key = "panic-instead-of-error"
            if key in known:
                run.known(key, known[key])
                continue
        if r["status"] in ("bad", "panic"):
            viol += 1
            if viol <= 8:
                run.violation({"what": "rejection not reported as a well-formed error value", "dialect": c["dialect"], "input": r.get("variant", c["sql"]),
                               "derived_from": c["sql"], "observed": r.get("problem")})
    run.add_eval(sum(c["mutants"] for c in cases), rejected)
    run.notes["error_value_runs"] = dict(stat, mutants=sum(c["mutants"] for c in cases), rejected=rejected)
    run.sample({"text": cases[1]["sql"], "dialect": cases[1]["dialect"], "result": res[1]})

    # lexer errors through the model: located errors agree with the implementation
    lcases = spread(run.rng, lt, per_text=4 if run.tier == "quick" else 13)
    try:
        lres, bad, inexpr = lex_correspondence(run, lcases, "c10")
        nerr = sum(1 for o in lres if "err" in o)
        run.notes["correspondence_lexer_errors"] = {"cases": len(lcases), "impl_errors": nerr, "disagreements": len(bad), "not_expressible": len(inexpr)}
        run.add_eval(len(lcases), len({(c["dialect"], c["sql"], c["unescape"]) for c in lcases if True}))
        for i in (bad + inexpr)[:5]:
            if viol == 0:
                run.violation({"what": "lexer model and Tokenizer disagree on an error / its position", "unchecked": "correspondence lexer (error stream)",
                               "input": lcases[i], "observed": lres[i]}, no_input=True)
    except RuntimeError as e:
        run.violation({"what": "model evaluation failed", "unchecked": "correspondence lexer", "tool_output": str(e)[-2000:]}, no_input=True)
    if not pr["ok"] and viol == 0:
        run.violation({"what": "a proof obligation of C10 no longer checks", "unchecked": failing_coq_item(pr["output"]),
                       "forbidden": pr["forbidden"], "axioms": pr["axioms"]}, no_input=True)


def replay(path):
    r = json.load(open(path))
    print(json.dumps(r, indent=1, ensure_ascii=False))
    if isinstance(r.get("input"), str):
        print("now:", run_bin("drive", ["errprop"], [{"dialect": r["dialect"], "sql": r["input"], "mutants": 0}])[0])
    return 0
