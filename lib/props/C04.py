"""C04 — operator chains group exactly as the dialect's precedence table says."""
import itertools
import json
import os
import re
import time
import common
from common import *

PKG = "prattx"
if os.environ.get("VERIF_PRATTX_BINDIR"):
    # mutation self-test: use a prattx binary built against a scratch copy of /repo
    # (VERIF_PRATTX_BINDIR = <scratch cargo target dir>/debug)
    _scratch = os.path.dirname(os.environ["VERIF_PRATTX_BINDIR"].rstrip("/"))
    _orig_target_dir = common.target_dir
    common.target_dir = lambda pkg: _scratch if pkg == PKG else _orig_target_dir(pkg)
    common._built.add(PKG)
HEADER = "Require Import SqlV.Base SqlV.PrecSpec SqlV.Pratt SqlV.SetOps SqlVGen.PrecTables.\n"
DIALECTS = ["generic", "ansi", "bigquery", "clickhouse", "databricks", "duckdb", "hive", "mssql",
            "mysql", "postgresql", "redshift", "snowflake", "sqlite"]

# operator spellings tried against every dialect's tokenizer (token name -> text)
SPELL = {
    "Spaceship": "<=>", "DoubleEq": "==", "Eq": "=", "Neq": "<>", "Gt": ">", "GtEq": ">=", "Lt": "<",
    "LtEq": "<=", "Plus": "+", "Minus": "-", "Mul": "*", "Mod": "%", "Div": "/", "DuckIntDiv": "//",
    "StringConcat": "||", "Pipe": "|", "Caret": "^", "Ampersand": "&", "ShiftLeft": "<<",
    "ShiftRight": ">>", "Sharp": "#", "Overlap": "&&", "CaretAt": "^@", "Tilde": "~",
    "TildeAsterisk": "~*", "ExclamationMarkTilde": "!~", "ExclamationMarkTildeAsterisk": "!~*",
    "DoubleTilde": "~~", "DoubleTildeAsterisk": "~~*", "ExclamationMarkDoubleTilde": "!~~",
    "ExclamationMarkDoubleTildeAsterisk": "!~~*", "Arrow": "->", "LongArrow": "->>",
    "HashArrow": "#>", "HashLongArrow": "#>>", "AtArrow": "@>", "ArrowAt": "<@", "HashMinus": "#-",
    "AtQuestion": "@?", "AtAt": "@@", "Question": "?", "QuestionAnd": "?&", "QuestionPipe": "?|",
    "CustomBinaryOperator": "<->", "kw:AND": "AND", "kw:OR": "OR", "kw:XOR": "XOR",
}
PREFIX_SPELL = {"Plus": "+", "Minus": "-", "kw:NOT": "NOT", "Tilde": "~", "AtSign": "@",
                "DoubleExclamationMark": "!!", "PGSquareRoot": "|/", "PGCubeRoot": "||/"}
# mixfix / postfix items: (name, kind, text); `$` = a fresh atom
MIXFIX = [
    ("IS DISTINCT FROM", "infix", "IS DISTINCT FROM"), ("IS NOT DISTINCT FROM", "infix", "IS NOT DISTINCT FROM"),
    ("AT TIME ZONE", "infix", "AT TIME ZONE"),
    ("LIKE", "infix", "LIKE"), ("NOT LIKE", "infix", "NOT LIKE"), ("ILIKE", "infix", "ILIKE"),
    ("NOT ILIKE", "infix", "NOT ILIKE"), ("SIMILAR TO", "infix", "SIMILAR TO"),
    ("NOT SIMILAR TO", "infix", "NOT SIMILAR TO"), ("RLIKE", "infix", "RLIKE"), ("NOT RLIKE", "infix", "NOT RLIKE"),
    ("REGEXP", "infix", "REGEXP"), ("NOT REGEXP", "infix", "NOT REGEXP"), ("LIKE ANY", "infix", "LIKE ANY"),
    ("DIV", "infix", "DIV"),
    ("BETWEEN", "infix", "BETWEEN $ AND"), ("NOT BETWEEN", "infix", "NOT BETWEEN $ AND"),
    ("IS NULL", "postfix", "IS NULL"), ("IS NOT NULL", "postfix", "IS NOT NULL"), ("IS TRUE", "postfix", "IS TRUE"),
    ("IS NOT FALSE", "postfix", "IS NOT FALSE"), ("IS UNKNOWN", "postfix", "IS UNKNOWN"),
    ("IS NOT TRUE", "postfix", "IS NOT TRUE"), ("IS FALSE", "postfix", "IS FALSE"), ("IS NOT UNKNOWN", "postfix", "IS NOT UNKNOWN"),
    ("::", "postfix", ":: INT"), ("!", "postfix", "!"), ("[]", "postfix", "[$]"),
    ("IN", "postfix", "IN ($, $)"), ("NOT IN", "postfix", "NOT IN ($)"), ("IN UNNEST", "postfix", "IN UNNEST($)"),
    ("LIKE ESCAPE", "postfix", "LIKE $ ESCAPE 's1'"), ("NOT ILIKE ESCAPE", "postfix", "NOT ILIKE $ ESCAPE 's1'"),
    ("SIMILAR TO ESCAPE", "postfix", "SIMILAR TO $ ESCAPE 's1'"),
    ("= ANY", "postfix", "= ANY($)"), ("< ALL", "postfix", "< ALL($)"), (">= SOME", "postfix", ">= SOME($)"),
]
KW = {"NOT": "KNot", "IS": "KIs", "NULL": "KNull", "TRUE": "KTrue", "FALSE": "KFalse", "UNKNOWN": "KUnknown",
      "DISTINCT": "KDistinct", "FROM": "KFrom", "IN": "KIn", "BETWEEN": "KBetween", "LIKE": "KLike",
      "ILIKE": "KILike", "SIMILAR": "KSimilar", "TO": "KTo", "RLIKE": "KRLike", "REGEXP": "KRegexp",
      "ESCAPE": "KEscape", "AT": "KAt", "TIME": "KTime", "ZONE": "KZone", "ANY": "KAny", "ALL": "KAll",
      "SOME": "KSome", "UNNEST": "KUnnest", "DIV": "KDiv", "OPERATOR": "KOperator"}
CMP_OPS = {"Gt", "Lt", "GtEq", "LtEq", "Eq", "NotEq"}
PRE_TOKS = {"DoubleExclamationMark", "AtSign", "PGSquareRoot", "PGCubeRoot"}
UNOP_TOK = {"Plus": "Plus", "Minus": "Minus", "PGBitwiseNot": "Tilde", "PGSquareRoot": "PGSquareRoot",
            "PGCubeRoot": "PGCubeRoot", "PGPrefixFactorial": "DoubleExclamationMark", "PGAbs": "AtSign"}
TYPES = {"INT": 1, "TEXT": 2, "BOOLEAN": 3, "DATE": 4}
KNOWN_KEYS = {"isdf": "is-distinct-from-operand", "div": "mysql-div-operand"}


def load_keys():
    src = open(os.path.join(COQ, "theories/PrecSpec.v")).read()
    blk = src[src.index("Definition key_table"):src.index("Definition n_keys")]
    keys = [(int(a), b, int(c), int(e)) for a, b, c, e in re.findall(r'\((\d+),\s*"([^"]+)",\s*(\d+),\s*(\d+)\)', blk)]
    assert [k[0] for k in keys] == list(range(len(keys)))
    fam = dict(re.findall(r'\("([a-z]+)",\s*(F[A-Za-z]+)\)', src[src.index("Definition dialect_family"):]))
    return keys, fam


def dumped_value(t, name):
    """Value of a pinned key in the dump of one dialect (None if the dump has no such entry)."""
    if name.startswith("class:"):
        return t["prec_value"].get(name[6:])
    if name == "unknown":
        return t["unknown"]
    if name == "kw:NOT":
        return t["np_seq"].get("NOT ident")
    if name == "kw:AT":
        a, b, c = t["np_seq"].get("AT ident ZONE"), t["np_seq"].get("AT TIME ident"), t["np_kw"].get("AT")
        return a if a == b == c else max(x for x in (a, b, c) if isinstance(x, int))
    if name.startswith("kw:"):
        k = name[3:]
        return t["np_seq"].get(k) if " " in k else t["np_kw"].get(k)
    return t["np"].get(name)


def extra_operators(t, names):
    """Dumped entries with a power above `unknown` that the published table does not list."""
    u, extra = t["unknown"], []
    for k, v in t["np"].items():
        if v != u and k not in names:
            extra.append(k)
    for k, v in t["np_kw"].items():
        if v != u and "kw:" + k not in names:
            extra.append("kw:" + k)
    for k, v in t["np_seq"].items():
        if v != u and "kw:" + k not in names:
            extra.append("kw:" + k)
    return sorted(extra)


def top(res):
    ok = res.get("ok") if isinstance(res, dict) else None
    if not ok:
        return None
    return (ok["k"], ok.get("op"), res.get("rest"))


def operand_flag(pr, prefix, fixed_top_and, inner):
    """fixed iff `x <op> b AND c` has AND on top and `x <op> b IS NULL`-style probe nests outside."""
    return all(top(pr[p]) == fixed_top_and for p in prefix) and all(top(pr[p]) == i for p, i in inner)


def gen_tables(run):
    tabs = run_bin(PKG, ["tables"], pkg=PKG)[0]
    keys, fam = load_keys()
    names = [k[1] for k in keys]
    kid = {k[1]: k[0] for k in keys}
    # which operator spellings each dialect's tokenizer produces, and what parse_infix makes of them
    cases = []
    for d in DIALECTS:
        for n, s in SPELL.items():
            cases.append({"dialect": d, "sql": "1 %s b" % s, "name": n})
        for n, s in PREFIX_SPELL.items():
            cases.append({"dialect": d, "sql": "%s a" % s, "name": "pre:" + n})
        cases.append({"dialect": d, "sql": "a [ b ]", "name": "bracket"})
    res = run_bin(PKG, ["expr"], cases, pkg=PKG)
    info = {d: {"ops": {}, "binop": {}, "prefix": {}, "bracket": None} for d in DIALECTS}
    for c, r in zip(cases, res):
        d, n, tk, rs = c["dialect"], c["name"], r["tokens"], r["result"]
        if n == "bracket":
            info[d]["bracket"] = (rs.get("ok") or {}).get("k")
        elif n.startswith("pre:"):
            n = n[4:]
            want = ["kw", "NOT"] if n == "kw:NOT" else ["op", n]
            if tk and len(tk) == 2 and tk[0][:2] == want and rs.get("ok", {}).get("k") == "un":
                info[d]["prefix"][n] = rs["ok"]["op"]
        else:
            want = ["kw", n[3:]] if n.startswith("kw:") else ["op", n]
            if tk and len(tk) == 3 and tk[1][:2] == want and tk[0][0] == "atom" and tk[2][0] == "atom":
                info[d]["ops"][n] = SPELL[n]
                ok = rs.get("ok")
                if ok and ok["k"] == "bin" and rs["rest"] == 0:
                    info[d]["binop"][n] = ok["op"]
    v = ["(* GENERATED on every run by lib/props/C04.py from the running /repo crate (harness/prattx: prattx tables,",
         "   prattx expr).  Binding powers are what prec_value / get_next_precedence return NOW. *)",
         "Require Import SqlV.Base SqlV.PrecSpec SqlV.Pratt.", "",
         "Definition gen_key_names : list (N * list N) := [",
         ";\n".join("  (%d, %s)" % (k[0], coq_str(k[1])) for k in keys), "].", ""]
    dump, flags, problems = {}, {}, []
    for d in DIALECTS:
        t = tabs["dialects"][d]
        lv = []
        for n in names:
            x = dumped_value(t, n)
            if not isinstance(x, int):
                problems.append({"dialect": d, "key": n, "dumped": x})
                x = 255
            lv.append(x)
        dump[d] = lv
        pr = t["probes"]
        isdf = (operand_flag(pr, ["isdf_and", "isndf_and"], ("bin", "And", 0), [("isdf_is", ("is", None, 0)), ("isndf_is", ("is", None, 0))]))
        is_mysql_div = top(pr["div_mul"]) is not None
        divf = (not is_mysql_div) or (top(pr["div_and"]) == ("bin", "And", 0) and top(pr["div_cast"]) == ("bin", "MyIntegerDivide", 0))
        is_pg = "DoubleExclamationMark" in info[d]["prefix"]
        flags[d] = {"isdf_fixed": isdf, "div_fixed": divf, "mysql_div": is_mysql_div, "is_pg": is_pg,
                    "lambda": t["flags"]["lambda"], "in_empty_list": t["flags"]["in_empty_list"],
                    "subscript": info[d]["bracket"] == "subscript"}
        binl = sorted(kid[n] for n in info[d]["binop"])
        cmpl = sorted(kid[n] for n, o in info[d]["binop"].items() if o in CMP_OPS)
        v += ["Definition lv_%s : list N := [%s]." % (d, "; ".join(map(str, lv))),
              "Definition d_%s : dialect := {| lvl := nthN lv_%s;" % (d, d),
              "  binop := fun k => existsb (N.eqb k) [%s];" % "; ".join(map(str, binl)),
              "  cmpop := fun k => existsb (N.eqb k) [%s];" % "; ".join(map(str, cmpl)),
              "  is_pg := %s; lambda := %s; in_empty_list := %s; mysql_div := %s; subscript := %s;" % tuple(
                  coq_bool(flags[d][k]) for k in ("is_pg", "lambda", "in_empty_list", "mysql_div", "subscript")),
              "  isdf_fixed := %s; div_fixed := %s |}." % (coq_bool(isdf), coq_bool(divf)),
              "Definition extra_%s : list (list N) := %s." % (d, coq_strs(extra_operators(t, set(names)))),
              "Definition pin_%s : N -> N := pinned %s." % (d, fam[d]), ""]
        info[d]["extra"] = extra_operators(t, set(names))
    v += ["Definition all_dialects : list (family * dialect * list N * list (list N)) := [",
          ";\n".join("  (%s, d_%s, lv_%s, extra_%s)" % (fam[d], d, d, d) for d in DIALECTS), "]."]
    write_if_changed(os.path.join(GEN, "PrecTables.v"), "\n".join(v) + "\n")
    return {"tabs": tabs, "keys": keys, "kid": kid, "fam": fam, "info": info, "dump": dump, "flags": flags,
            "problems": problems}


# ------------------------------------------------------------------ case generation

class Namer:
    def __init__(self):
        self.n = 0

    def atom(self):
        self.n += 1
        return "x%d" % self.n


def items_of(T, d):
    its = [(n, "infix", s) for n, s in T["info"][d]["ops"].items()]
    its += MIXFIX
    return its


def prefixes_of(T, d):
    ps = ["-", "NOT", "+"]
    if T["flags"][d]["is_pg"]:
        ps += ["~", "@", "!!", "|/", "||/"]
    return ps


def fill(text, nm):
    while "$" in text:
        text = text.replace("$", nm.atom(), 1)
    return text


OPERAND_FORMS = ["7", "'s1'", "(x9)", "(7)"]


def chain(items, pre=None, forms=None):
    """operand item1 [operand] item2 [operand] ...; pre[i] = prefix text before operand i;
    forms[i] = literal text used for operand i instead of a fresh identifier (numbers, strings and
    parenthesised operands take other branches of the prefix-operator code than words do)."""
    nm = Namer()
    pre = pre or {}
    forms = forms or {}
    out, k = [], 0

    def operand():
        nonlocal k
        p = pre.get(k, "")
        txt = forms.get(k) or nm.atom()
        k += 1
        return (p + " " if p else "") + txt
    out.append(operand())
    for (_, kind, text) in items:
        out.append(fill(text, nm))
        if kind == "infix":
            out.append(operand())
    return " ".join(out)


def gen_cases(run, T, only=None):
    """Returns list of {dialect, sql, stream}."""
    rng = run.rng
    thorough = run.tier == "thorough"
    cases = []
    for d in DIALECTS:
        its = items_of(T, d)
        pres = prefixes_of(T, d)
        inf = [i for i in its if i[1] == "infix"]
        # singles with prefixes on either side
        for i in its:
            cases.append({"dialect": d, "sql": chain([i]), "stream": "single"})
            for p in pres:
                cases.append({"dialect": d, "sql": chain([i], {0: p}), "stream": "single-prefix"})
                if i[1] == "infix":
                    cases.append({"dialect": d, "sql": chain([i], {1: p}), "stream": "single-prefix"})
                # the same with non-word operands after the prefix operator
                for f in OPERAND_FORMS:
                    cases.append({"dialect": d, "sql": chain([i], {0: p}, {0: f}), "stream": "single-prefix-form"})
                    if i[1] == "infix":
                        cases.append({"dialect": d, "sql": chain([i], {1: p}, {1: f}), "stream": "single-prefix-form"})
        # all ordered pairs
        for a in its:
            for b in its:
                cases.append({"dialect": d, "sql": chain([a, b]), "stream": "pair"})
                if thorough:
                    for p in pres[:3]:
                        for pos in range(3):
                            cases.append({"dialect": d, "sql": chain([a, b], {pos: p}), "stream": "pair-prefix"})
                else:
                    cases.append({"dialect": d, "sql": chain([a, b], {rng.randrange(3): rng.choice(pres)}), "stream": "pair-prefix"})
        # interior operands: an operator inside BETWEEN's low bound, a LIKE pattern before ESCAPE, brackets, lists, parentheses
        for a in inf:
            op = a[2]
            for tmpl in ("x1 BETWEEN x2 %s x3 AND x4", "x1 NOT BETWEEN x2 AND x3 %s x4", "x1 LIKE x2 %s x3 ESCAPE 's1'",
                         "x1 = ANY(x2 %s x3)", "x1 IN (x2 %s x3, x4)", "x1 [x2 %s x3]", "(x1 %s x2)", "x1 IN UNNEST(x2 %s x3)",
                         "x1 BETWEEN NOT x2 %s x3 AND x4", "(x1, x2 %s x3)"):
                cases.append({"dialect": d, "sql": tmpl % fill(op, Namer()).replace("x1", "y1"), "stream": "interior"})
            for b in (inf if thorough else rng.sample(inf, min(8, len(inf)))):
                cases.append({"dialect": d, "sql": "(x1 %s x2) %s x3" % (fill(a[2], Namer()).replace("x1", "y1"), fill(b[2], Namer()).replace("x1", "y2")), "stream": "paren"})
                cases.append({"dialect": d, "sql": "x1 %s (x2 %s x3)" % (fill(a[2], Namer()).replace("x1", "y1"), fill(b[2], Namer()).replace("x1", "y2")), "stream": "paren"})
        # triples
        if thorough and d in ("generic", "postgresql"):
            for tr in itertools.product(its, repeat=3):
                cases.append({"dialect": d, "sql": chain(list(tr)), "stream": "triple"})
        else:
            for _ in range(6000 if thorough else 1200):
                tr = [rng.choice(its) for _ in range(3)]
                pre = {rng.randrange(4): rng.choice(pres)} if rng.random() < 0.4 else None
                forms = {rng.randrange(4): rng.choice(OPERAND_FORMS)} if rng.random() < 0.3 else None
                cases.append({"dialect": d, "sql": chain(tr, pre, forms), "stream": "triple"})
        # random chains up to length 12
        for _ in range(1500 if thorough else 350):
            n = rng.randrange(4, 13)
            ch = [rng.choice(its) for _ in range(n)]
            pre = {i: rng.choice(pres) for i in range(n + 1) if rng.random() < 0.25}
            sql = chain(ch, pre)
            if rng.random() < 0.3:
                # parenthesise a random well-bracketed middle part: wrap a prefix of the chain
                cut = rng.randrange(1, n)
                left = chain(ch[:cut], pre)
                rest = chain(ch[cut:], None).split(" ", 1)
                sql = "(" + left + ") " + (rest[1] if len(rest) > 1 else "")
                sql = re.sub(r"\bx(\d+)\b", lambda m: "x" + m.group(1), sql)
            cases.append({"dialect": d, "sql": sql.strip(), "stream": "chain"})
    if only:
        cases = [c for c in cases if only(c)]
    # distinct texts per dialect
    seen, out = set(), []
    for c in cases:
        k = (c["dialect"], c["sql"])
        if k not in seen:
            seen.add(k)
            out.append(c)
    return out


# ------------------------------------------------------------------ encoding as Coq terms

class Enc:
    def __init__(self, T, d):
        self.T, self.d = T, d
        self.kid = T["kid"]
        self.binop = T["info"][d]["binop"]
        self.atoms = {}

    def atom_id(self, text, string=False):
        """x<n> -> n; string 's<n>' -> n; string 'x<n>' -> 100000+n (PrinterCore.str_payload)."""
        m = re.fullmatch(r"([a-z])(\d+)", text)
        if m and m.group(1) == "x":
            return int(m.group(2)) + (100000 if string else 0)
        if m and m.group(1) == "s":
            return int(m.group(2))
        if m:
            return int(m.group(2)) + 100
        return self.atoms.setdefault(text, 5000 + len(self.atoms))

    def tok(self, t):
        k = t[0]
        if k == "atom":
            return "TAtom false %d" % self.atom_id(t[1])
        if k == "str":
            return "TAtom true %d" % self.atom_id(t[1], True)
        if k == "type":
            return "TType %d" % TYPES[t[1]]
        if k == "kw":
            if t[1] in ("AND", "OR", "XOR"):
                return "TOp %d" % self.kid["kw:" + t[1]]
            return "TKw " + KW[t[1]] if t[1] in KW else "TOther"
        if k == "p":
            return {"LParen": "TLParen", "RParen": "TRParen", "Comma": "TComma", "LBracket": "TLBracket",
                    "RBracket": "TRBracket"}.get(t[1], "TOther")
        if k == "op":
            n = t[1]
            if n == "ExclamationMark":
                return "TExcl"
            if n == "DoubleColon":
                return "TDoubleColon"
            if n == "Colon":
                return "TColon"
            if n in PRE_TOKS:
                return "TPre %d" % self.kid[n]
            if n in self.kid and 43 <= self.kid[n] <= 86:
                return "TOp %d" % self.kid[n]
        return "TOther"

    def toks(self, view):
        return "[" + "; ".join(self.tok(t) for t in view) + "]"

    # implementation tree -> model tree, aligned against the input tokens
    def tree(self, view, node):
        self.v, self.pos = view, 0
        term = self.conv(node)
        return term, self.pos

    def peek(self):
        return self.v[self.pos] if self.pos < len(self.v) else ["eof", ""]

    def eat(self, kind, val=None):
        t = self.peek()
        if t[0] != kind or (val is not None and t[1] != val):
            raise ValueError("alignment: expected %s %s at %d, found %s" % (kind, val, self.pos, t))
        self.pos += 1
        return t

    def opt_kw(self, w):
        t = self.peek()
        if t[0] == "kw" and t[1] == w:
            self.pos += 1
            return True
        return False

    def lst(self, l):
        out = []
        for i, x in enumerate(l):
            if i:
                self.eat("p", "Comma")
            out.append(self.conv(x))
        return "[" + "; ".join(out) + "]"

    def conv(self, n):
        k = n["k"]
        B = coq_bool
        if k in ("atom", "str"):
            t = self.eat(k)
            if t[1] != n["v"]:
                raise ValueError("atom text")
            return "(EAtom %s %d)" % (B(k == "str"), self.atom_id(n["v"], k == "str"))
        if k == "nested":
            self.eat("p", "LParen"); e = self.conv(n["e"]); self.eat("p", "RParen")
            return "(ENested %s)" % e
        if k == "tuple":
            self.eat("p", "LParen"); l = self.lst(n["list"]); self.eat("p", "RParen")
            return "(ETuple %s)" % l
        if k == "un":
            op = n["op"]
            if op == "Not":
                self.eat("kw", "NOT")
                return "(ENot %s)" % self.conv(n["e"])
            if op == "PGPostfixFactorial":
                e = self.conv(n["e"]); self.eat("op", "ExclamationMark")
                return "(EPostfix %s)" % e
            tn = UNOP_TOK[op]
            self.eat("op", tn)
            return "(EPre %d %s)" % (self.kid[tn], self.conv(n["e"]))
        if k in ("bin", "anyall"):
            l = self.conv(n["l"])
            t = self.peek()
            if n["op"] == "MyIntegerDivide" and k == "bin":
                self.eat("kw", "DIV")
                return "(EDiv %s %s)" % (l, self.conv(n["r"]))
            name = ("kw:" + t[1]) if t[0] == "kw" else t[1]
            if t[0] not in ("kw", "op") or self.binop.get(name) != n["op"]:
                raise ValueError("alignment: operator %s vs token %s" % (n["op"], t))
            self.pos += 1
            if k == "bin":
                return "(EBin %d %s %s)" % (self.kid[name], l, self.conv(n["r"]))
            q = self.eat("kw")[1]
            if q != n["q"]:
                raise ValueError("quantifier")
            self.eat("p", "LParen"); r = self.conv(n["r"]); self.eat("p", "RParen")
            return "(EAnyAll %d %s %s %s)" % (self.kid[name], KW[q], l, r)
        if k == "is":
            e = self.conv(n["e"]); self.eat("kw", "IS")
            v = n["v"]
            neg = v.startswith("IsNot")
            if neg:
                self.eat("kw", "NOT")
            w = v[5:] if neg else v[2:]
            self.eat("kw", w.upper())
            return "(EIs %s %s %s)" % (B(neg), KW[w.upper()], e)
        if k == "isdf":
            l = self.conv(n["l"]); self.eat("kw", "IS")
            if n["neg"]:
                self.eat("kw", "NOT")
            self.eat("kw", "DISTINCT"); self.eat("kw", "FROM")
            return "(EIsDF %s %s %s)" % (B(n["neg"]), l, self.conv(n["r"]))
        if k == "attz":
            l = self.conv(n["l"]); self.eat("kw", "AT"); self.eat("kw", "TIME"); self.eat("kw", "ZONE")
            return "(EAtTz %s %s)" % (l, self.conv(n["r"]))
        if k == "cast":
            e = self.conv(n["e"]); self.eat("op", "DoubleColon"); t = self.eat("type")
            if t[1] != n["ty"].upper():
                raise ValueError("type")
            return "(ECast %s %d)" % (e, TYPES[t[1]])
        if k == "like":
            e = self.conv(n["e"])
            if n["neg"]:
                self.eat("kw", "NOT")
            kd = n["kind"]
            if kd == "Like":
                self.eat("kw", "LIKE")
            elif kd == "ILike":
                self.eat("kw", "ILIKE")
            elif kd == "SimilarTo":
                self.eat("kw", "SIMILAR"); self.eat("kw", "TO")
            elif kd == "RLike":
                self.eat("kw", "RLIKE")
            else:
                self.eat("kw", "REGEXP")
            if n["any"]:
                self.eat("kw", "ANY")
            pat = self.conv(n["pat"])
            esc = "None"
            if n["esc"] is not None:
                self.eat("kw", "ESCAPE")
                t = self.peek()
                if t[0] not in ("atom", "str") or t[1] != n["esc"]:
                    raise ValueError("escape")
                self.pos += 1
                esc = "(Some (%s, %d))" % (B(t[0] == "str"), self.atom_id(t[1], t[0] == "str"))
            ck = {"Like": "LLike", "ILike": "LILike", "SimilarTo": "LSimilar", "RLike": "LRLike", "Regexp": "LRegexp"}[kd]
            return "(ELike %s %s %s %s %s %s)" % (ck, B(n["neg"]), B(n["any"]), e, pat, esc)
        if k == "between":
            e = self.conv(n["e"])
            if n["neg"]:
                self.eat("kw", "NOT")
            self.eat("kw", "BETWEEN"); lo = self.conv(n["lo"]); self.eat("kw", "AND")
            return "(EBetween %s %s %s %s)" % (B(n["neg"]), e, lo, self.conv(n["hi"]))
        if k == "inlist":
            e = self.conv(n["e"])
            if n["neg"]:
                self.eat("kw", "NOT")
            self.eat("kw", "IN"); self.eat("p", "LParen"); l = self.lst(n["list"]); self.eat("p", "RParen")
            return "(EInList %s %s %s)" % (B(n["neg"]), e, l)
        if k == "inunnest":
            e = self.conv(n["e"])
            if n["neg"]:
                self.eat("kw", "NOT")
            self.eat("kw", "IN"); self.eat("kw", "UNNEST"); self.eat("p", "LParen"); a = self.conv(n["arr"]); self.eat("p", "RParen")
            return "(EInUnnest %s %s %s)" % (B(n["neg"]), e, a)
        if k == "subscript":
            e = self.conv(n["e"]); self.eat("p", "LBracket"); i = self.conv(n["i"]); self.eat("p", "RBracket")
            return "(ESubscript %s %s)" % (e, i)
        raise ValueError("outside the core: " + k)


def encode_case(T, c, r):
    """Coq term (dialect, pinned, tokens, impl result) for one driver result; None if not tokenizable."""
    d = c["dialect"]
    if r["tokens"] is None:
        return None
    enc = Enc(T, d)
    ts = enc.toks(r["tokens"])
    rs = r["result"]
    if "ok" in rs:
        try:
            term, pos = enc.tree(r["tokens"], rs["ok"])
            if pos != len(r["tokens"]) - rs["rest"]:
                raise ValueError("tree yields %d tokens, parser consumed %d" % (pos, len(r["tokens"]) - rs["rest"]))
            impl = "(IOk %s %d)" % (term, rs["rest"])
        except (ValueError, KeyError) as e:
            impl = "IBad"
            c["align_error"] = str(e)
    else:
        impl = "IErr"  # Err or panic (MySQL DIV unwraps its operand: C02's concern)
    return "(d_%s, pin_%s, %s, %s)" % (d, d, ts, impl)


CODES_RE = re.compile(r"=\s*\[([0-9;\s%N]*)\]")


def run_coq_codes(tag, header, terms, fn, typ, shard_size=1200):
    """Like common.run_coq_cases but returns the N code computed for every case."""
    shards = [terms[i:i + shard_size] for i in range(0, len(terms), shard_size)]
    paths = []
    for k, sh in enumerate(shards):
        body = [header, "", "Definition cases : list %s := [" % typ, ";\n".join("  " + c for c in sh), "].",
                "Eval vm_compute in (map %s cases)." % fn]
        path = os.path.join(CASES, f"{tag}_{k}.v")
        write_if_changed(path, "\n".join(body) + "\n")
        paths.append(path)
    codes = []
    t = time.time()
    for start in range(0, len(paths), NCPU):
        batch = paths[start:start + NCPU]
        for j, (rc, out) in enumerate(coqc_parallel(batch)):
            if rc != 0:
                raise RuntimeError(f"coqc failed on {batch[j]}:\n{out[-3000:]}")
            m = CODES_RE.search(out.replace("\n", " "))
            if not m:
                raise RuntimeError(f"cannot parse coqc output for {batch[j]}: {out[-2000:]}")
            cs = [int(x) for x in re.findall(r"[0-9]+", m.group(1))]
            if len(cs) != len(shards[start + j]):
                raise RuntimeError(f"{batch[j]}: {len(cs)} codes for {len(shards[start + j])} cases")
            codes += cs
    log(f"[coq] evaluated {len(terms)} cases of {tag} in the kernel VM in {time.time()-t:.1f}s")
    for p in paths:
        for ext in (".v", ".vo", ".vok", ".vos", ".glob"):
            q = p[:-2] + ext
            if os.path.exists(q):
                os.remove(q)
    return codes


CHECK_FN = "(fun c => match c with (d, pin, ts, i) => check_case d pin ts i end)"
CASE_TYPE = "(dialect * (N -> N) * list tok * ires)"


def evaluate(run, T, cases, tag):
    res = run_bin_parallel(PKG, ["expr"], cases, pkg=PKG)
    terms, idx = [], []
    for i, (c, r) in enumerate(zip(cases, res)):
        t = encode_case(T, c, r)
        if t is not None:
            terms.append(t)
            idx.append(i)
    codes = run_coq_codes(tag, HEADER, terms, CHECK_FN, CASE_TYPE)
    full = [None] * len(cases)
    for i, cd in zip(idx, codes):
        full[i] = cd
    return res, full


def known_class(case, res):
    """Which listed finding a published-oracle failure belongs to (Coq said: correct once the
    operand level of the known constructs is weakened)."""
    s = json.dumps(res["result"].get("ok"))
    if '"isdf"' in s:
        return "isdf"
    if "MyIntegerDivide" in s:
        return "div"
    return None


def judge(run, T, cases, res, codes, stats):
    known = dict(known_findings("C04"))
    lim = stats.setdefault("violations_by_kind", {"oracle": 0, "unlisted-operand": 0, "correspondence": 0})

    def viol(kind, rep, **kw):
        lim[kind] += 1
        if lim[kind] <= 15:   # every violation is counted; the first 15 of a kind get a replay file
            run.violation(rep, **kw)
    for c, r, cd in zip(cases, res, codes):
        st = stats.setdefault(c["stream"], {"cases": 0, "in_fragment": 0, "trees": 0, "errors": 0})
        st["cases"] += 1
        if cd is None:
            st["untokenizable"] = st.get("untokenizable", 0) + 1
            continue
        if not cd & 8:
            st["in_fragment"] += 1
        if "ok" in r["result"]:
            st["trees"] += 1
        else:
            st["errors"] += 1
        if "panic" in r["result"]:
            st["panics"] = st.get("panics", 0) + 1
        base = {"dialect": c["dialect"], "input": c["sql"], "stream": c["stream"],
                "observed": r["result"].get("text") or r["result"], "observed_tree": r["result"].get("ok")}
        if cd & 2:
            viol("oracle", {"what": "the implementation's tree is not the precedence-climbing tree of the published table "
                                    "(correctb with the pinned binding powers fails)", **base})
        if cd & 4:
            cls = known_class(c, r)
            key = KNOWN_KEYS.get(cls)
            if key in known:
                run.known(key, known[key])
                stats.setdefault("known", {}).setdefault(key, {"count": 0, "example": base})["count"] += 1
            else:
                viol("unlisted-operand", {"what": "operand parsed below its published level (finding not listed in KNOWN_FINDINGS.txt)", **base})
        if cd & 1 and not cd & 2:
            viol("correspondence", {"what": "model Pratt.parse_expr and Parser::parse_expr disagree; the published-table oracle accepts the implementation's result",
                                    "unchecked": "correspondence Pratt.parse_expr", "alignment": c.get("align_error"), **base}, no_input=True)


# ------------------------------------------------------------------ set operations

def setop_cases(run):
    ops = ["UNION", "EXCEPT", "INTERSECT"]
    quants = ["", "ALL", "DISTINCT"]
    rng = run.rng
    out = []
    for n in range(1, 6):
        for combo in itertools.product(ops, repeat=n - 1):
            qs = [rng.choice(quants) if rng.random() < 0.3 else "" for _ in combo]
            toks = ["S1"]
            for i, (o, q) in enumerate(zip(combo, qs)):
                toks += [o] + ([q] if q else []) + ["S%d" % (i + 2)]
            out.append(toks)
            # one parenthesised operand range for every (i, j)
            for i in range(n):
                for j in range(i + 1, n + 1):
                    if (i, j) == (0, n) and n > 1 and rng.random() < 0.5:
                        continue
                    t2, k = [], 0
                    # operand positions in toks
                    pos = [x for x, t in enumerate(toks) if t.startswith("S")]
                    for x, t in enumerate(toks):
                        if x == pos[i]:
                            t2.append("(")
                        t2.append(t)
                        if x == pos[j - 1]:
                            t2.append(")")
                    out.append(t2)
    return out


def setop_sql(toks):
    return " ".join("SELECT %s" % t[1:] if t.startswith("S") else t for t in toks)


def setop_term(toks, res):
    m = {"UNION": "SOpT Union", "EXCEPT": "SOpT Except", "INTERSECT": "SOpT Intersect", "ALL": "SAll",
         "DISTINCT": "SDistinct", "(": "SLP", ")": "SRP"}
    ts = "[" + "; ".join("SSel %s" % t[1:] if t.startswith("S") else m[t] for t in toks) + "]"

    def conv(n):
        if n["k"] == "select" and n["plain"] and n["v"].isdigit():
            return "(SSelect %s)" % n["v"]
        if n["k"] == "query" and n["plain"]:
            return "(SQuery %s)" % conv(n["e"])
        if n["k"] == "setop":
            q = {"None": "QNone", "All": "QAll", "Distinct": "QDistinct"}[n["q"]]
            return "(SSetOp %s %s %s %s)" % (n["op"], q, conv(n["l"]), conv(n["r"]))
        raise ValueError("outside the set-operation core")
    if "ok" in res and res.get("plain") and res["rest"] == 0:
        try:
            return "(%s, Some %s)" % (ts, conv(res["ok"]))
        except (ValueError, KeyError):
            pass
    return "(%s, None)" % ts


SETOP_FN = ("(fun c => match c with (ts, i) => match parse_query_top sp_pinned ts, i with "
            "| SOk t [], Some t' => (if sexpr_eqb t t' then 0 else 1) + (if scorrectb sp_pinned t' ts then 0 else 2) "
            "| SOutOfFragment, _ => 8 | _, _ => 1 end end)")


def check_setops(run, stats):
    chains = setop_cases(run)
    dial = DIALECTS if run.tier == "thorough" else ["generic", "postgresql", "mysql", "snowflake", "mssql", "sqlite"]
    cases = [{"dialect": d, "sql": setop_sql(t), "toks": t} for d in dial for t in chains]
    res = run_bin_parallel(PKG, ["setop"], cases, pkg=PKG)
    terms = [setop_term(c["toks"], r) for c, r in zip(cases, res)]
    codes = run_coq_codes("c04s", HEADER, terms, SETOP_FN, "(list stok * option sexpr)", shard_size=2500)
    bad = 0
    for c, r, cd in zip(cases, res, codes):
        if cd & 2:
            bad += 1
            run.violation({"what": "set-operation tree is not the precedence-climbing tree (INTERSECT 20 > UNION/EXCEPT 10, left-assoc)",
                           "dialect": c["dialect"], "input": c["sql"], "observed_tree": r.get("ok", r)})
        elif cd & 1:
            bad += 1
            run.violation({"what": "model SetOps.parse_query_top and Parser::parse_query disagree", "unchecked": "correspondence SetOps",
                           "dialect": c["dialect"], "input": c["sql"], "observed_tree": r.get("ok", r)}, no_input=True)
    stats["setops"] = {"cases": len(cases), "chains": len(chains), "dialects": len(dial), "disagreements": bad,
                       "in_fragment": sum(1 for cd in codes if not cd & 8)}
    run.add_eval(len(cases), len(chains))
    run.sample({"setop": cases[7]["sql"], "impl": res[7]})


# ------------------------------------------------------------------ the check

def directed(run, T):
    """Published-order side condition per dialect, decided here as well as in Coq, to build the
    inputs for the search: pairs of keys whose order differs from the pinned one."""
    keys, fam = T["keys"], T["fam"]
    out = []
    for d in DIALECTS:
        col = 3 if fam[d] == "FPostgres" else 2
        pin = [(50 if (fam[d] == "FSnowflake" and k[1] == "Colon") else k[col]) for k in keys]
        dm = T["dump"][d]
        bad = set()
        for i in range(len(keys)):
            for j in range(len(keys)):
                if (pin[i] > pin[j]) != (dm[i] > dm[j]) or (pin[i] == pin[j]) != (dm[i] == dm[j]):
                    bad.add(keys[i][1]); bad.add(keys[j][1])
        # a key that differs in order from more than half of the others is the moved one
        for e in T["info"][d]["extra"]:
            bad.add(e)
        if bad:
            out.append((d, sorted(bad)))
    return out


def check(run):
    run.cov["rule"] = ("expression cases: distinct (dialect, text) pairs; non-trivial = the model is inside its fragment and the text has >= 2 operator items "
                       "(or 1 item + a prefix operator); set-operation cases: distinct chains")
    run.cov["checker_cmd"] = "make -C coq Properties/C04.vo (coqc 8.16.1, full .vo) + coqc on generated case files (vm_compute)"
    run.cov["trusted_base"] = TRUSTED_BASE_COMMON + [
        "harness/prattx (dumps prec_value/get_next_precedence of the running crate; runs Parser::parse_expr / parse_query and prints trees)",
        "lib/props/C04.py: alignment of the implementation's tree with the input tokens (re-checked in Coq: yield t = consumed tokens)",
        "pinned published order: coq/theories/PrecSpec.v key_table (the crate's documented levels at the pinned commit)",
        "modelled rather than verified: Pratt.v (parse_subexpr, get_next_precedence_default, parse_prefix, parse_infix restricted to the operator core), SetOps.v",
    ]
    stats = {}
    T = gen_tables(run)
    for p in T["problems"]:
        run.violation({"what": "a pinned key has no dumped binding power", **p, "unchecked": "published_order"}, no_input=True)
    pr = prove("C04")
    run.cov["obligations"] = pr["statements"]
    run.cov["discharged"] = pr["statements"] if pr["ok"] else 0
    run.notes["print_assumptions"] = {"closed_under_global_context": pr["closed"], "axioms": pr["axioms"]}
    run.notes["cone"] = pr["cone"]
    run.notes["flags"] = T["flags"]
    run.assumptions = ["binding powers and token->power map as dumped from the compiled crate on this run",
                       "set-operation powers 10/10/20 are literals in parse_remaining_set_exprs; tied to the model by exhaustive chains up to length 5"]
    model_ok = os.path.exists(os.path.join(COQ, "theories/Pratt.vo")) and os.path.exists(os.path.join(GEN, "PrecTables.vo"))
    if not model_ok:
        coq_make(["theories/Pratt.vo", "theories/SetOps.vo", "gen/PrecTables.vo"])

    moved = directed(run, T)
    run.notes["published_order_mismatch"] = {d: ks for d, ks in moved}
    cases = gen_cases(run, T)
    if moved:
        # directed search first: cases mentioning the spellings of the keys whose order changed
        sp = dict(SPELL)
        def hit(c):
            for d, ks in moved:
                if c["dialect"] == d:
                    for k in ks:
                        s = sp.get(k) or (k[3:] if k.startswith("kw:") else None)
                        if s and (" " + s + " ") in (" " + c["sql"] + " "):
                            return True
            return False
        cases = [c for c in cases if hit(c)] + [c for c in cases if not hit(c)]
    t0 = time.time()
    nontrivial, first = 0, []
    CH = 150000
    for lo in range(0, len(cases), CH):
        part = cases[lo:lo + CH]
        res, codes = evaluate(run, T, part, "c04")
        judge(run, T, part, res, codes, stats)
        nontrivial += sum(1 for c, cd in zip(part, codes) if cd is not None and not cd & 8 and c["stream"] != "single")
        if not first:
            first = [(c, r) for c, r in list(zip(part, res))[:400:57]]
        del res, codes
        if len(run.violations) > 200:
            break
    run.add_eval(len(cases), nontrivial)
    run.notes["streams"] = stats
    run.notes["expr_eval_s"] = round(time.time() - t0, 1)
    for c, r in first[:6]:
        run.sample({"dialect": c["dialect"], "sql": c["sql"], "impl": r["result"].get("text", r["result"])})
    if moved and not any(not v[1] for v in run.violations):
        run.violation({"what": "dumped precedence table is not order-isomorphic to the published one (or lists an operator the published table lacks)",
                       "unchecked": "published_order", "keys": {d: ks for d, ks in moved}}, no_input=True)
    check_setops(run, stats)
    if not pr["ok"] and not run.violations:
        run.violation({"what": "a proof obligation of C04 no longer checks", "unchecked": failing_coq_item(pr["output"]),
                       "forbidden": pr["forbidden"], "axioms": pr["axioms"]}, no_input=True)


def replay(path):
    r = json.load(open(path))
    print(json.dumps(r, indent=1, ensure_ascii=False))
    if "input" in r and "dialect" in r:
        bin_ = "setop" if str(r["input"]).upper().startswith(("SELECT", "(SELECT")) else "expr"
        print("implementation now:", json.dumps(run_bin(PKG, [bin_], [{"dialect": r["dialect"], "sql": r["input"]}], pkg=PKG)[0]))
    return 0
