"""C01 — parse -> print -> parse is a fixpoint for every accepted statement.

Two populations, reported separately in the evidence file:
  in_model       the operator core (lib/props/c01core.py), the query core -- the SELECT / query skeleton
                 (lib/props/c01query.py) --, the DDL core -- CREATE TABLE with column definitions
                 (lib/props/c01ddl.py) -- and the DML core -- INSERT / UPDATE / DELETE (lib/props/c01dml.py) --,
                 proved in Coq and tied to the implementation;
  outside_model  the rest of the grammar: the property itself evaluated on the implementation as search
                 (harness/rtx `roundtrip` / `splice`), every failure mapped to a root-cause key (lib/rtlib.py).
"""
import json
import os
import traceback
from common import *
import rtlib
from rtlib import PKG, Judge

PROP = "C01"
EXPECTED = ("parse(print(a)) = Ok([a]) under the same dialect and options for every statement a of the accepted input, "
            "print(a') = print(a) for the re-parsed a', and the '; '-joined print of the script re-parses to the same list")


def observed_of(f):
    return {"failure": f["kind"], "statement": f["stmt"], "statement_kind": f["stmt_kind"], "printed": f["printed"], "detail": f["detail"]}


def judge_roundtrip(J, stream, case, text, rt, origin=None):
    st = J.stream(stream)
    st["accepted"] += 1
    st["statements"] += rt.get("n", 0)
    J.accepted_pairs.add((case["dialect"], text))
    if rt["status"] == "ok":
        return
    st["failed_cases"] += 1
    c = dict(case, mutated=text) if origin else case
    for key, f in rtlib.rt_findings(c, rt):
        rep = {"what": "an accepted input does not survive parse -> print -> parse", "dialect": case["dialect"], "input": text,
               "options": {"unescape": case["unescape"], "trailing": case["trailing"]}, "stream": stream,
               "observed": observed_of(f), "expected": EXPECTED}
        if origin:
            rep["origin"] = origin
        J.record(stream, key, rep)


def check(run):
    run.cov["rule"] = ("evaluations = (dialect, text, unescape, trailing) cases whose text the implementation accepted (rejected inputs and splice "
                       "cases without a site are not counted); distinct_nontrivial = distinct (dialect, accepted text) pairs, i.e. option variants "
                       "of one text count once; every such pair goes through parse, print of each statement, re-parse, tree comparison and second print")
    run.cov["checker_cmd"] = "harness/rtx: rtx roundtrip | rtx splice (implementation-side search) + lib/props/c01core.py (Coq operator core)"
    run.cov["trusted_base"] = [
        "harness/rtx/src/bin/rtx.rs (runs Parser::parse_statements with ParserOptions, Statement::to_string, Statement: PartialEq; the tree diff shown in reports uses the serde encoding)",
        "lib/rtlib.py: mapping of failures to root-cause keys (only decides known-vs-unlisted, never hides a failure of an unlisted key)",
        "corpus: string literals of /repo's own tests accepted by at least one dialect (harness/vh corpus)",
    ]
    try:
        if os.environ.get("VERIF_C0105_PART") == "outside":
            # development / mutation self-test only: never green (recorded as an unchecked part)
            run.notes["in_model"] = {"status": "skipped by VERIF_C0105_PART=outside"}
            run.violation({"what": "the operator-core (in_model) part was skipped by VERIF_C0105_PART=outside", "unchecked": PROP + " operator core"}, no_input=True)
        else:
            import importlib
            c01core = importlib.import_module("props.c01core")
            c01query = importlib.import_module("props.c01query")
            # coq/gen/QueryTables.v is required by coq/Properties/C01.v: regenerate it before the theorems are re-checked
            qtables = None
            try:
                qtables = c01query.gen_query_tables()
            except BuildFailed:
                raise
            except Exception as e:
                traceback.print_exc()
                run.violation({"what": "the query-core tables (coq/gen/QueryTables.v) could not be regenerated", "unchecked": "C01 query core (lib/props/c01query.py)",
                               "tool_output": (str(e) or repr(e))[-3000:]}, no_input=True)
            # coq/gen/DdlTables.v and DataTypeTables.v are required by coq/Properties/C01.v as well
            c01ddl = importlib.import_module("props.c01ddl")
            dtables = None
            try:
                dtables = c01ddl.gen_ddl_tables()
            except BuildFailed:
                raise
            except Exception as e:
                traceback.print_exc()
                run.violation({"what": "the DDL-core tables (coq/gen/DdlTables.v, DataTypeTables.v) could not be regenerated", "unchecked": "C01 DDL core (lib/props/c01ddl.py)",
                               "tool_output": (str(e) or repr(e))[-3000:]}, no_input=True)
            # coq/gen/DmlTables.v (INSERT / UPDATE / DELETE; refers to QueryTables.v) is required by coq/Properties/C01.v too
            c01dml = importlib.import_module("props.c01dml")
            mtables = None
            if qtables is not None:
                try:
                    mtables = c01dml.gen_dml_tables()
                except BuildFailed:
                    raise
                except Exception as e:
                    traceback.print_exc()
                    run.violation({"what": "the DML-core tables (coq/gen/DmlTables.v) could not be regenerated", "unchecked": "C01 DML core (lib/props/c01dml.py)",
                                   "tool_output": (str(e) or repr(e))[-3000:]}, no_input=True)
            c01core.check_core(run, PROP)
            if qtables is not None:
                try:
                    c01query.check_query(run, PROP, tables=qtables)
                except BuildFailed:
                    raise
                except Exception as e:
                    traceback.print_exc()
                    run.violation({"what": "the query-core (in_model) part of C01 failed to run", "unchecked": "C01 query core (lib/props/c01query.py)",
                                   "tool_output": (str(e) or repr(e))[-3000:]}, no_input=True)
            if dtables is not None:
                try:
                    c01ddl.check_ddl(run, PROP, tables=dtables)
                except BuildFailed:
                    raise
                except Exception as e:
                    traceback.print_exc()
                    run.violation({"what": "the DDL-core (in_model) part of C01 failed to run", "unchecked": "C01 DDL core (lib/props/c01ddl.py)",
                                   "tool_output": (str(e) or repr(e))[-3000:]}, no_input=True)
            if mtables is not None:
                try:
                    c01dml.check_dml(run, PROP, tables=mtables)
                except BuildFailed:
                    raise
                except Exception as e:
                    traceback.print_exc()
                    run.violation({"what": "the DML-core (in_model) part of C01 failed to run", "unchecked": "C01 DML core (lib/props/c01dml.py)",
                                   "tool_output": (str(e) or repr(e))[-3000:]}, no_input=True)
    except BuildFailed:
        raise
    except Exception as e:
        traceback.print_exc()
        run.violation({"what": "the operator-core (in_model) part of C01 failed to run", "unchecked": "C01 operator core (lib/props/c01core.py)",
                       "tool_output": (str(e) or repr(e))[-3000:]}, no_input=True)

    J = Judge(run, PROP)
    # stream (i): corpus x accepting dialects x unescape x trailing
    cases = rtlib.corpus_cases(run)
    res = run_bin_parallel(PKG, ["roundtrip"], cases, pkg=PKG)
    for c, r in zip(cases, res):
        st = J.stream("corpus")
        st["cases"] += 1
        if r["status"] == "rejected":
            st["rejected_or_no_site"] += 1
            continue
        judge_roundtrip(J, "corpus", c, c["sql"], r)
    run.sample({"stream": "corpus", "case": {k: cases[len(cases) // 3][k] for k in ("dialect", "sql", "unescape", "trailing")},
                "result": {k: res[len(cases) // 3].get(k) for k in ("status", "n", "stmt_kinds")}})
    n1 = len(cases)
    # stream (iii): pairs of corpus texts as one script
    cases = rtlib.pair_cases(run)
    res = run_bin_parallel(PKG, ["roundtrip"], cases, pkg=PKG)
    for c, r in zip(cases, res):
        st = J.stream("pairs")
        st["cases"] += 1
        if r["status"] == "rejected":
            st["rejected_or_no_site"] += 1
            continue
        judge_roundtrip(J, "pairs", c, c["sql"], r)
    n1 += len(cases)
    # stream (iv): exhaustive insertion sweep -- the failing mutants are re-run for the full report
    cases, sw = rtlib.sweep_failures(run, "roundtrip")
    run.notes["insertion_sweep"] = sw
    J.stream("sweep")["cases"] += sw.get("tried", 0)
    J.stream("sweep")["accepted"] += sw.get("accepted", 0)
    J.stream("sweep")["rejected_or_no_site"] += sw.get("tried", 0) - sw.get("accepted", 0)
    res = run_bin_parallel(PKG, ["roundtrip"], cases, pkg=PKG) if cases else []
    for c, r in zip(cases, res):
        if r["status"] in ("rejected", "ok"):
            continue
        J.stream("sweep")["accepted"] -= 1   # counted again by judge_roundtrip
        judge_roundtrip(J, "sweep", c, c["sql"], r, origin=c["origin"])
    # streams (ii): splice / substitution mutations of corpus texts
    nmut = 0
    for stream, cases in rtlib.mutation_streams(run):
        res = run_bin_parallel(PKG, ["splice"], cases, pkg=PKG)
        nmut += len(cases)
        shown = 0
        for c, r in zip(cases, res):
            st = J.stream(stream)
            st["cases"] += 1
            if r["status"] != "accepted":
                if r["status"] == "panic":
                    J.record(stream, "parse:panic", {"what": "parsing a mutated text panicked", "dialect": c["dialect"], "input": r.get("mutated"),
                                                     "options": {"unescape": c["unescape"], "trailing": c["trailing"]}, "observed": r.get("detail"), "expected": EXPECTED})
                st["rejected_or_no_site"] += 1
                continue
            judge_roundtrip(J, stream, c, r["mutated"], r["roundtrip"],
                            origin={"sql": c["sql"], "expr": c["expr"], "seed": c["seed"], "sites": c.get("sites"), "paren": c.get("paren", True)})
            if shown < 2 and r["roundtrip"]["status"] == "ok":
                shown += 1
                run.sample({"stream": stream, "expr": c["expr"], "dialect": c["dialect"], "mutated": r["mutated"][:300], "result": "ok"})
    acc = sum(s["accepted"] for s in J.stats.values())
    run.add_eval(acc, len(J.accepted_pairs))
    J.finish()
    run.notes["outside_model"]["splice_expressions"] = len(rtlib.EXPRS)
    log(f"[C01] corpus+pair cases {n1}, mutation cases {nmut}, accepted {acc}, failure keys {dict(J.by_key)}")


def replay(path):
    r = json.load(open(path))
    print(json.dumps(r, indent=1, ensure_ascii=False))
    if "input" in r and "dialect" in r and r.get("input") is not None:
        out = rtlib.replay_case(PROP, r)
        print("implementation now (roundtrip):", json.dumps(out["roundtrip"], ensure_ascii=False))
        print("implementation now (content):", json.dumps(out["content"], ensure_ascii=False))
    return 0
