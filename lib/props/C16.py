"""C16 — visitors see every node once, in order, and can stop the walk."""
import hashlib
import json
import os
import sys
from common import *
from corpus import corpus
import astenv
from astenv import coq_sval, Interner, dump_types, walk_dump, sv_hash
from props.C17 import EXTRA_SQL, reachable, names_in, select_cases, stmt_key

sys.setrecursionlimit(20000)

# case files depend on the model and the generated environment only, so the correspondence still
# runs when a proof or a side condition of Properties/C16.v is broken
HEADER = ("Require Import SqlV.Base SqlV.Univ SqlV.Visit SqlVGen.TypeEnv.\nFrom Coq Require Import ZArith.\n"
          "Definition visit_env : env := Eval vm_compute in reach_env type_env_full [s2l \"Statement\"].\n")
NODE_HOOKS = {"Expr": "visit_expr", "Statement": "visit_statement", "Query": "visit_query", "TableFactor": "visit_table_factor"}
REL = "visit_relation"
# relation spec (mirrors Properties/C16.v dml_positions): declaration, variant -> ObjectName-typed fields
DML_DECLS = [("TableFactor", "Table"), ("Insert", None), ("Delete", None), ("Statement", "Update"), ("Statement", "Merge")]
KNOWN_KEY = "delete-tables-not-relations"
KNOWN_POS = ("Delete", None, "tables")
WITNESS_SQL = ("mysql", "DELETE t1, t2 FROM t1 INNER JOIN t2 ON t1.id = t2.id WHERE t1.x > 0")

EXTRA_VISIT = [
    ("mysql", "DELETE t1, t2 FROM t1 INNER JOIN t2 ON t1.id = t2.id WHERE t1.x > 0"),
    ("mysql", "DELETE FROM t1, t2 USING t1 INNER JOIN t2 ON t1.id = t2.id"),
    ("generic", "DELETE FROM tgt_d WHERE a IN (SELECT b FROM src_d)"),
    ("generic", "INSERT INTO tgt_i (a) SELECT b FROM src_i JOIN src_j ON src_i.k = src_j.k"),
    ("mysql", "REPLACE INTO tgt_r (a) VALUES (1)"),
    ("generic", "UPDATE tgt_u SET a = (SELECT max(b) FROM src_u) FROM src_v WHERE tgt_u.k = src_v.k"),
    ("generic", "MERGE INTO tgt_m USING src_m ON tgt_m.k = src_m.k WHEN MATCHED THEN DELETE"),
    ("generic", "SELECT f(g(a), (SELECT b FROM sub_s)) FROM from_a JOIN join_b ON from_a.k = join_b.k, (SELECT c FROM der_d) AS x"),
]


def names_object(t):
    for k in ("opt", "vec", "box"):
        if k in t:
            return names_object(t[k])
    return t.get("named") == "ObjectName" and not t.get("args")


def decl_fields(env, tn, vn):
    d = env.decls.get(tn)
    if d is None:
        return []
    if d["kind"] == "struct" and vn is None:
        return d["fields"]["fields"]
    if d["kind"] == "enum" and vn is not None:
        for v in d["variants"]:
            if v["name"] == vn:
                return v["fields"]["fields"]
    return []


def dml_positions(env):
    out = []
    for tn, vn in DML_DECLS:
        for f in decl_fields(env, tn, vn):
            if f["name"] and names_object(f["ty"]):
                out.append((tn, vn, f["name"], "direct" if f["ty"].get("named") == "ObjectName" else "container"))
    return out


def all_object_positions(env):
    """inventory: every ObjectName-typed field reachable from Statement, with its hook"""
    inv = []
    for key in reachable(env, ["Statement"]):
        d = env.decls.get(key)
        if not d:
            continue
        groups = [(None, d["fields"])] if d["kind"] == "struct" else [(v["name"], v["fields"]) for v in d["variants"]]
        for vn, fs in groups:
            for i, f in enumerate(fs["fields"]):
                if names_object(f["ty"]) or f["visit_with"]:
                    inv.append({"type": key, "variant": vn, "field": f["name"] if f["name"] is not None else i,
                                "ty": astenv.ty_text(f["ty"]), "hook": f["visit_with"]})
    return inv


def gen_all(run):
    env = astenv.gen_type_env()
    gen_witness(env)
    return env


# ---------------------------------------------------------------- oracle on one statement (spec on the dump vs the real trace)

def spec_occurrences(dump):
    """document pre-order list of (hook, fingerprint) for the four node kinds, and the table
    names in relation-spec positions: list of (position, fingerprint, path)"""
    nodes, rels = [], []

    def f(n, p, par, key):
        if n[0] in ("st", "en") and n[1] in NODE_HOOKS:
            nodes.append((NODE_HOOKS[n[1]], sv_hash(n), p))
        if par is not None and key:
            ptn = par[1]
            pvn = par[2] if par[0] == "en" else None
            if (ptn, pvn) in DML_DECLS:
                # ObjectName values directly in the field, or elements of a Vec / payload of an Option
                for on, q in object_names(n, p):
                    rels.append(((ptn, pvn, key), sv_hash(on), q))
    walk_dump(dump, f)
    return nodes, rels


def object_names(n, p):
    if n[0] == "st" and n[1] == "ObjectName":
        return [(n, p)]
    if n[0] == "some":
        return object_names(n[1], p + (0,))
    if n[0] == "seq":
        return [x for i, c in enumerate(n[1]) for x in object_names(c, p + (i,))]
    return []


def oracle(o):
    """returns (list of failure strings, list of known-class misses)"""
    bad, known = [], []
    tr = [tuple(e) for e in o["trace"]]
    # balanced
    st = []
    for ph, h, x in tr:
        if ph == 0:
            st.append((h, x))
        elif not st or st.pop() != (h, x):
            bad.append("callbacks not balanced at post %s" % h)
            break
    if st and not bad:
        bad.append("callbacks not balanced: %d pre without post" % len(st))
    nodes, rels = spec_occurrences(o["dump"])
    got = [(h, x) for ph, h, x in tr if ph == 0 and h != REL]
    want = [(h, x) for h, x, _ in nodes]
    if got != want:
        # describe the first difference
        i = 0
        while i < min(len(got), len(want)) and got[i] == want[i]:
            i += 1
        bad.append("pre-callbacks on expr/query/table factor/statement nodes differ from the nodes of the tree in document order: "
                   "%d nodes in the tree, %d entered; first difference at position %d (tree: %s, entered: %s)"
                   % (len(want), len(got), i, want[i][0] if i < len(want) else None, got[i][0] if i < len(got) else None))
    else:
        # nesting: when a node is left, exactly the nodes below it have been entered since it was entered
        paths = [q for _, _, q in nodes]
        desc = [0] * len(paths)
        for i, q in enumerate(paths):
            j = i + 1
            while j < len(paths) and paths[j][:len(q)] == q:
                j += 1
            desc[i] = j - i - 1
        seen_pre, stack = 0, []
        for ph, h, x in tr:
            if h == REL:
                continue
            if ph == 0:
                stack.append(seen_pre)
                seen_pre += 1
            elif stack:
                i = stack.pop()
                if seen_pre != i + 1 + desc[i]:
                    bad.append("%s node left after %d of its %d descendant nodes were entered: enter/leave callbacks are not nested around the children"
                               % (h, seen_pre - i - 1, desc[i]))
                    break
    relgot = {}
    for ph, h, x in tr:
        if ph == 0 and h == REL:
            relgot[x] = relgot.get(x, 0) + 1
    need = {}
    for pos, x, q in rels:
        need.setdefault(x, []).append(pos)
    for x, poss in need.items():
        miss = len(poss) - relgot.get(x, 0)
        if miss > 0:
            # attribute the misses to known positions first
            kn = [p for p in poss if p == KNOWN_POS]
            if len(kn) >= miss and relgot.get(x, 0) >= len(poss) - len(kn):
                known.append("table name in %s.%s not entered as relation" % (KNOWN_POS[0], KNOWN_POS[2]))
            else:
                others = [p for p in poss if p != KNOWN_POS]
                bad.append("table name in position %s not entered as relation" % (others[0] if others else poss[0],))
    for k in ("mut_same_trace", "noop_equal", "completed", "mut_completed"):
        if o.get(k) is False:
            bad.append({"mut_same_trace": "mutating walk delivers a different callback sequence",
                        "noop_equal": "mutating walk that changes nothing returned a different tree",
                        "completed": "walk without Break did not complete", "mut_completed": "mutating walk without Break did not complete"}[k])
    for b in o.get("breaks", []):
        for k, msg in (("prefix_ok", "callbacks after Break / not a prefix of the full trace"), ("broke", "Break not propagated"),
                       ("mut_prefix_ok", "mutating walk: callbacks after Break / not a prefix"), ("mut_broke", "mutating walk: Break not propagated"),
                       ("mut_tree_equal", "mutating walk broken off: tree changed")):
            if b.get(k) is False:
                bad.append("Break at callback %d of %d: %s" % (b["k"], len(tr), msg))
                break
    return bad, known


# ---------------------------------------------------------------- known finding witness

def gen_witness(env):
    d, sql = WITNESS_SQL
    try:
        r = run_bin("astx-drive", ["visit"], [{"sql": sql, "dialect": d}], pkg="astx")[0]
    except Exception:
        r = {"status": "error"}
    body = None
    if r.get("status") == "ok" and r["stmts"]:
        o = r["stmts"][0]
        nodes, rels = spec_occurrences(o["dump"])
        relgot = {e[2] for e in o["trace"] if e[0] == 0 and e[1] == REL}
        miss = [(pos, x, q) for pos, x, q in rels if pos == KNOWN_POS and x not in relgot]
        if miss:
            I = Interner()
            v = coq_sval(o["dump"], I)
            path = "[" + ";".join("%d%%nat" % i for i in miss[0][2]) + "]"
            body = "\n".join([
                "Definition known_reproduced : bool := true.",
                I.header(),
                "Definition witness : sval := %s." % v,
                "Definition witness_path : path := %s." % path,
                "Lemma witness_refuted : known_reproduced = true ->",
                "  exists v p n, sub v p = Some n /\\ sval_tname n = Some (s2l \"ObjectName\") /\\",
                "                in_delete_tables v p = true /\\",
                "                ~ In (relation_hook, p) (pres (walk (reach_env type_env_full [s2l \"Statement\"]) v)).",
                "Proof.",
                "  intros _. exists witness, witness_path.",
                "  let n := eval vm_compute in (sub witness witness_path) in",
                "  match n with Some ?x => exists x | None => fail \"witness path invalid\" end.",
                "  split; [vm_compute; reflexivity|]. split; [vm_compute; reflexivity|]. split; [vm_compute; reflexivity|].",
                "  apply not_in_pres_b. vm_compute. reflexivity.",
                "Qed.",
                "(* the witness is a well-typed statement of the environment *)",
                "Lemma witness_well_typed : check_type 400 (reach_env type_env_full [s2l \"Statement\"]) (TNamed (s2l \"Statement\")) witness = true.",
                "Proof. vm_compute. reflexivity. Qed.",
            ])
    if body is None:
        body = "\n".join([
            "Definition known_reproduced : bool := false.",
            "Lemma witness_refuted : known_reproduced = true ->",
            "  exists v p n, sub v p = Some n /\\ sval_tname n = Some (s2l \"ObjectName\") /\\",
            "                in_delete_tables v p = true /\\",
            "                ~ In (relation_hook, p) (pres (walk (reach_env type_env_full [s2l \"Statement\"]) v)).",
            "Proof. discriminate. Qed.",
        ])
    src = ("(* GENERATED on every run by lib/props/C16.py: witness of the known finding `%s`\n"
           "   (the parse of `%s` under %s), or a vacuous lemma when it no longer reproduces. *)\n"
           "Require Import SqlV.Base SqlV.Univ SqlV.Visit SqlV.VisitProofs SqlVGen.TypeEnv.\n" % (KNOWN_KEY, sql, d)) + body + "\n"
    write_if_changed(os.path.join(GEN, "C16Witness.v"), src)
    return body.startswith("Definition known_reproduced : bool := true")


# ---------------------------------------------------------------- diagnosis of a broken side condition

def diagnose(env):
    issues = []
    reach = reachable(env, ["Statement"])
    type_hooks, field_hooks = set(), set()
    for key in reach:
        d = env.decls.get(key)
        if d is None:
            issues.append({"kind": "undeclared-type", "type": key, "what": "type %s is used by a reachable declaration but was not found" % key})
            continue
        for tr in ("Visit", "VisitMut"):
            if tr not in d["derives"]:
                issues.append({"kind": "no-derive", "type": key, "trait": tr, "manual": tr in d["manual"],
                               "what": "%s does not derive %s%s" % (key, tr, " (manual impl present: its behaviour is not modelled)" if tr in d["manual"] else "")})
            elif tr in d["manual"]:
                issues.append({"kind": "manual-impl", "type": key, "trait": tr, "what": "%s has a manual %s impl besides the derive" % (key, tr)})
        if d["visit_with"]:
            type_hooks.add(d["visit_with"])
        for f in env.fields_of(d):
            if f["visit_with"]:
                field_hooks.add(f["visit_with"])
            t = f["ty"]
            bad = unvisitable(t)
            if bad:
                issues.append({"kind": "unvisitable-type", "type": key, "field": f["name"], "what": "field %s.%s has type %s with no Visit impl in visitor.rs" % (key, f["name"], bad)})
    for tn, h in NODE_HOOKS.items():
        d = env.decls.get(tn)
        if d is None or d["visit_with"] != h:
            issues.append({"kind": "node-hook", "type": tn, "what": "type %s does not carry visit(with = \"%s\") (has %s)" % (tn, h, d and d["visit_with"])})
    for tn, vn, k, how in dml_positions(env):
        if (tn, vn, k) == KNOWN_POS:
            continue
        f = [x for x in decl_fields(env, tn, vn) if x["name"] == k][0]
        if f["visit_with"] != REL:
            issues.append({"kind": "relation-position", "type": tn, "variant": vn, "field": k,
                           "what": "table-name field %s%s.%s (%s) does not carry visit(with = \"visit_relation\")" % (tn, "::" + vn if vn else "", k, astenv.ty_text(f["ty"]))})
    for h in sorted(type_hooks & field_hooks):
        issues.append({"kind": "hook-clash", "what": "hook %s is used both on a type and on a field: a node could be entered twice" % h})
    have = {(tr, st) for tr, st, _ in env.manual_other}
    for c in ["Option<T>", "Vec<T>", "Box<T>", "u8", "u16", "u32", "u64", "i8", "i16", "i32", "i64", "char", "bool", "String"]:
        for tr in ("Visit", "VisitMut"):
            if (tr, c) not in have:
                issues.append({"kind": "container-impl", "what": "impl %s for %s not found in the scanned files" % (tr, c)})
    for tr, st, via in env.manual_other:
        if tr in ("Visit", "VisitMut") and st not in ["Option<T>", "Vec<T>", "Box<T>", "u8", "u16", "u32", "u64", "i8", "i16", "i32", "i64", "char", "bool", "String"]:
            issues.append({"kind": "manual-impl-other", "what": "manual impl %s for %s (not one of the container / leaf impls)" % (tr, st)})
    return issues


def unvisitable(t):
    if "prim" in t:
        return None if t["prim"] in astenv.PRIMS and t["prim"] != "unit" else t["prim"]
    for k in ("opt", "vec", "box"):
        if k in t:
            return unvisitable(t[k])
    if "tuple" in t:
        return astenv.ty_text(t)
    if "named" in t:
        return None
    return astenv.ty_text(t)


# ---------------------------------------------------------------- the check

def check(run):
    thorough = run.tier == "thorough"
    run.cov["rule"] = ("implementation: every corpus text (strings of /repo's tests accepted by a dialect, + directed DML/extras) parsed under one (quick) / "
                       "every (thorough) accepting dialect; per statement a recording Visitor and VisitorMut (pre/post for expr, query, table factor, statement, relation), "
                       "Break returned at every k (traces <= 40 callbacks) or at 4 boundary + 8 sampled k, no-op mutation equality; decided against the spec computed on "
                       "the value dump (nodes of the four kinds in document order, table names in relation-spec positions). Model: dump, trace and Break runs evaluated "
                       "against Visit.walk / walkB / walk_mut in the kernel VM. non-trivial = distinct statement value with >= 3 callbacks")
    run.cov["checker_cmd"] = "make -C coq Properties/C16.vo (coqc 8.16.1, full .vo build) + coqc on generated case files"
    run.cov["trusted_base"] = TRUSTED_BASE_COMMON + [
        "translator harness/astx/src/bin/astx-env.rs (syn): declarations, derives under cfg_attr, visit(with=..) attributes, manual Visit/VisitMut impls, visit_noop! lists -> coq/gen/TypeEnv.v",
        "value dump and recording visitors: harness/astx (astx-drive visit); nodes are compared by a structural fingerprint implemented in Rust (Sv::hash), Coq (Univ.sv_hash) and Python (astenv.sv_hash)",
        "modelled rather than verified: the code generated by derive/src/lib.rs and the container/leaf impls of src/ast/visitor.rs (Visit.trav); validated on every run by trace correspondence",
        "relation spec: ObjectName-typed fields of TableFactor::Table, Insert, Delete, Statement::Update, Statement::Merge (Properties/C16.v dml_positions); other table-name fields are reported as inventory only",
    ]
    env = astenv.gen_type_env()
    reproduced = gen_witness(env)
    pr = prove("C16")
    run.cov["obligations"] = pr["statements"]
    run.cov["discharged"] = pr["statements"] if pr["ok"] else 0
    run.notes["print_assumptions"] = {"closed_under_global_context": pr["closed"], "axioms": pr["axioms"]}
    run.notes["cone"] = pr["cone"]
    inv = all_object_positions(env)
    run.notes["relation_spec"] = {"required": ["%s%s.%s" % (t, "::" + v if v else "", k) for t, v, k, _ in dml_positions(env) if (t, v, k) != KNOWN_POS],
                                  "known_class": "%s.%s" % (KNOWN_POS[0], KNOWN_POS[2]),
                                  "additional_hooked_fields": ["%s%s.%s" % (i["type"], "::" + i["variant"] if i["variant"] else "", i["field"]) for i in inv
                                                               if i["hook"] and (i["type"], i["variant"]) not in DML_DECLS],
                                  "object_name_fields_without_hook_not_in_spec": ["%s%s.%s" % (i["type"], "::" + i["variant"] if i["variant"] else "", i["field"]) for i in inv
                                                                                  if not i["hook"] and (i["type"], i["variant"]) not in DML_DECLS]}
    run.notes["type_env"] = {"declarations": len(env.order), "reachable_from_Statement": len(reachable(env, ["Statement"])),
                             "translator_obligations": env.obligations}
    run.assumptions = ["the code generated by derive/src/lib.rs is as modelled by Visit.trav (validated by trace correspondence)",
                       "Rust dispatches visit() on static types that coincide with the type names recorded in the dumped value",
                       "data-modification statements = INSERT/REPLACE, UPDATE, DELETE, MERGE"]

    # ---- the property itself on the implementation
    cases = []
    for e in corpus():
        ds = e["dialects"] if thorough else [e["dialects"][run.rng.randrange(len(e["dialects"]))]]
        for d in ds:
            cases.append({"sql": e["sql"], "dialect": d, "seed": run.rng.randrange(1 << 30)})
    for d, s in EXTRA_VISIT + EXTRA_SQL:
        cases.append({"sql": s, "dialect": d, "seed": 1})
    res = run_bin_parallel("astx-drive", ["visit"], cases, pkg="astx")
    stmts, seen = [], {}
    impl_bad, n_impl, n_breaks, known_hits = [], 0, 0, []
    for c, r in zip(cases, res):
        if r["status"] != "ok":
            continue
        for i, o in enumerate(r["stmts"]):
            n_impl += 1
            if "panic" in o:
                impl_bad.append({"input": c["sql"], "dialect": c["dialect"], "statement_index": i, "failed": ["panic: " + o["panic"]]})
                continue
            bad, known = oracle(o)
            n_breaks += len(o.get("breaks", []))
            if known:
                known_hits.append((c, known[0]))
            if bad:
                impl_bad.append({"input": c["sql"], "dialect": c["dialect"], "statement_index": i, "failed": bad[:4]})
            k = stmt_key(o["dump"])
            if k not in seen:
                seen[k] = 1
                stmts.append({"sql": c["sql"], "dialect": c["dialect"], "index": i, "dump": o["dump"], "trace": o["trace"],
                              "breaks": o.get("breaks", []), "size": o.get("size", 0), "ty": "stmt"})
    nontrivial = sum(1 for s in stmts if len(s["trace"]) >= 6)
    run.add_eval(n_impl + n_breaks, nontrivial)
    run.notes["implementation_walks"] = {"texts": len(cases), "statements": n_impl, "distinct_statement_values": len(stmts),
                                         "break_runs": n_breaks, "callbacks_total": sum(len(s["trace"]) for s in stmts), "failures": len(impl_bad),
                                         "known_class_hits": len(known_hits)}
    listed = {k for k, _ in known_findings("C16")}
    if known_hits:
        c, what = known_hits[0]
        if KNOWN_KEY in listed:
            run.known(KNOWN_KEY, "%s, e.g. `%s` (%s)" % (what, c["sql"], c["dialect"]))
        else:
            run.violation({"what": what, "input": c["sql"], "dialect": c["dialect"]})
    reported = set()
    for b in impl_bad:
        if b["input"] not in reported and len(reported) < 3:
            reported.add(b["input"])
            run.violation(dict(b, what="visitor walk of a parsed statement violates the property"))
    if stmts:
        run.sample({"sql": stmts[0]["sql"], "dialect": stmts[0]["dialect"], "callbacks": len(stmts[0]["trace"]), "oracle": "ok"})

    # ---- model vs implementation in the kernel VM
    deps_ok = True
    if not pr["make_ok"]:
        deps_ok, _ = coq_make(["theories/Visit.vo", "gen/TypeEnv.vo"])
    model_ok = deps_ok and os.path.exists(os.path.join(COQ, "theories/Visit.vo")) and os.path.exists(os.path.join(COQ, "gen/TypeEnv.vo"))
    corr_bad = []
    if model_ok:
        for s in stmts:
            s["types"] = dump_types(s["dump"])
        sel = select_cases(run, stmts, 500 if not thorough else 10 ** 9, 2500 if not thorough else 20000)
        corr_bad = correspondence(run, sel)
    else:
        run.notes["correspondence"] = "not run: theories/Visit.vo or gen/TypeEnv.vo does not build"

    # ---- broken obligations
    issues = diagnose(env)
    run.notes["wf_visit_issues"] = [i["what"] for i in issues]
    if not pr["ok"] or issues or env.obligations:
        if not impl_bad:
            for isu in issues[:6]:
                run.violation({"what": "side condition wf_visit of the C16 theorems no longer holds for the regenerated type environment",
                               "unchecked": "Properties/C16.v: visit_env_wf", "obligation": isu["what"], "datum": isu,
                               "search": "no parsed corpus statement violates the property on the implementation"}, no_input=True)
            for o in env.obligations[:6]:
                run.violation({"what": "the translator could not interpret an item of the AST sources", "unchecked": "translator obligation " + o["key"],
                               "obligation": o}, no_input=True)
            if not pr["ok"] and not issues and not env.obligations:
                run.violation({"what": "a proof obligation of C16 no longer checks", "unchecked": failing_coq_item(pr["output"]),
                               "forbidden": pr["forbidden"], "axioms": pr["axioms"]}, no_input=True)
    if KNOWN_KEY in listed and not reproduced and not known_hits:
        run.notes["known_finding_status"] = "listed in KNOWN_FINDINGS.txt but no longer reproduces (move it to a fixed: line)"
    if corr_bad and not impl_bad:
        for b in corr_bad[:5]:
            run.violation(dict(b, what="model Visit.walk/walkB/walk_mut and the implementation's traces disagree on a statement that satisfies the property",
                               unchecked="correspondence walk"), no_input=True)


def case_term(s, I):
    tr = "[" + ";".join("(%s,%s,%d)" % ("Pre" if e[0] == 0 else "Post", I.name(e[1]), e[2]) for e in s["trace"]) + "]"
    ks = "[" + ";".join("(%d%%nat,%d%%nat)" % (b["k"], b["len"]) for b in s["breaks"][:12]) + "]"
    return "(%s,\n   %s,\n   %s)" % (coq_sval(s["dump"], I), tr, ks)


def correspondence(run, items):
    out = []
    if not items:
        return out
    I = Interner()
    terms = [case_term(s, I) for s in items]
    shard = max(4, (len(terms) + NCPU - 1) // NCPU)
    try:
        bad = run_coq_cases("c16", HEADER + I.header(), terms, "(fun c => N.eqb (c16_code visit_env c) 0)",
                            shard_size=shard, per_case_type="(sval * list (phase * list N * N) * list (nat * nat))")
    except RuntimeError as e:
        run.violation({"what": "model evaluation failed", "unchecked": "correspondence walk", "tool_output": str(e)[-2000:]}, no_input=True)
        return out
    run.add_eval(len(terms), sum(1 for s in items if len(s["trace"]) >= 6))
    run.notes["correspondence"] = {"cases": len(terms), "disagreements": len(bad),
                                   "break_runs_in_model": sum(min(12, len(s["breaks"])) for s in items)}
    for i in bad[:5]:
        s = items[i]
        I2 = Interner()
        rc, o = coq_eval(HEADER + I2.header(), "c16_code visit_env %s" % case_term(s, I2))
        codes = re.findall(r"=\s*(\d+)\s*:\s*N\b", o.replace("\n", " "))
        code = int(codes[-1]) if codes else None
        meaning = {1: "full trace differs from Visit.walk", 2: "trace with Break differs from Visit.walkB", 3: "mutating walk differs from Visit.walk_mut"}.get(code, "?")
        out.append({"input": s["sql"], "dialect": s["dialect"], "code": code, "meaning": meaning})
    run.sample({"correspondence": "walk", "sql": items[0]["sql"], "dialect": items[0]["dialect"], "agree": 0 not in bad})
    return out


def replay(path):
    r = json.load(open(path))
    print(json.dumps(r, indent=1, ensure_ascii=False))
    if "input" in r and "dialect" in r:
        o = run_bin("astx-drive", ["visit"], [{"sql": r["input"], "dialect": r["dialect"]}], pkg="astx")[0]
        if o["status"] == "ok":
            for i, s in enumerate(o["stmts"]):
                bad, known = oracle(s) if "trace" in s else (["panic"], [])
                print("implementation now: statement %d: %d callbacks; oracle failures: %s; known-class: %s" % (i, len(s.get("trace", [])), bad, known))
        else:
            print("implementation now:", o)
    return 0
