"""C09 — tokens tile the input exactly and carry their true line and column."""
import json
from common import *
from lexlib import *
from corpus import corpus


def gen_all(run):
    gen_dialect_tables()


def lex_cases_for(run, quick_random=400, thorough_random=4000):
    sqls = [e["sql"] for e in corpus()]
    if run.tier == "quick":
        sqls = run.rng.sample(sqls, min(250, len(sqls)))
    texts = gen_lex_cases(run.rng, quick_random if run.tier == "quick" else thorough_random, sqls)
    cases = spread(run.rng, texts, per_text=1 if run.tier == "quick" else 3)
    if run.tier == "quick":
        # keep the exhaustive 1-char cases, sample the exhaustive 2-char grid
        keep = [c for c in cases if len(c["sql"]) != 2]
        two = [c for c in cases if len(c["sql"]) == 2]
        cases = keep + run.rng.sample(two, min(len(two), 9000))
    cases += operator_extension_cases()
    cases += position_drift_cases()
    return cases


def check(run):
    run.cov["rule"] = ("lexer cases: all 1-character and (quick: sampled / thorough: all) 2-character strings over a 64-character alphabet of lexically "
                       "interesting characters x 13 dialects, fragment combinations, random fragment strings, corpus texts and their truncations, spread over "
                       "13 dialects x {unescape on, off}; distinct = distinct (dialect, unescape, text); non-trivial = the implementation produced >= 2 tokens or an error")
    run.cov["checker_cmd"] = "make -C coq Properties/C09.vo (coqc 8.16.1, full .vo) + coqc on generated case files (vm_compute)"
    run.cov["trusted_base"] = TRUSTED_BASE_COMMON + [
        "modelled rather than verified: the whole of Tokenizer::next_token and its helper scanners (coq/theories/Lexer.v); the abstraction that positions change only through State::next (positions in the model are derived from the consumed prefix)",
        "dialect character classes and flags, and Rust's char::is_whitespace/is_numeric/is_alphanumeric, imported as tables dumped from the running crate",
        "per-kind spelling of the source slice is checked on the implementation by harness/vh/src/bin/drive.rs lexprop (exploration), not yet a theorem",
    ]
    t, unknown = gen_dialect_tables()
    for name in unknown:
        run.violation({"what": "is_proper_identifier_inside_quotes of dialect %s behaves in a way the lexer model cannot express" % name,
                       "unchecked": "translator: dialect table of " + name}, no_input=True)
    pr = prove("C09")
    run.cov["obligations"] = pr["statements"]
    run.cov["discharged"] = pr["statements"] if pr["ok"] else 0
    run.notes["print_assumptions"] = {"closed_under_global_context": pr["closed"], "axioms": pr["axioms"]}
    run.notes["cone"] = pr["cone"]

    cases = lex_cases_for(run)
    # the property itself on the implementation
    props = run_bin_parallel("drive", ["lexprop"], cases)
    stat = {}
    bad_prop = {}
    known = dict(known_findings("C09"))
    for i, (c, r) in enumerate(zip(cases, props)):
        stat[r["status"]] = stat.get(r["status"], 0) + 1
        if r["status"] in ("bad", "panic"):
            rest = []
            for p in r.get("problems", []):
                key = "escaped-literal-no-raw-mode" if p.startswith("rawbody:escaped") else "unicode-literal-no-raw-mode" if p.startswith("rawbody:unicode") else None
                if key and key in known:
                    run.known(key, known[key])
                else:
                    rest.append(p)
            if rest or r["status"] == "panic":
                bad_prop[i] = dict(r, problems=rest or r.get("problems", []))
    run.notes["implementation_property_runs"] = stat
    reported = 0
    for i, r in list(bad_prop.items()):
        if reported < 8:
            run.violation({"what": "tokens do not tile the input / carry wrong positions / do not spell their source slice",
                           "dialect": cases[i]["dialect"], "unescape": cases[i]["unescape"], "input": cases[i]["sql"], "observed": r["problems"][:3]})
            reported += 1

    # model vs implementation
    disagree = []
    try:
        res, bad, inexpr = lex_correspondence(run, cases, "c09")
        nontriv = set()
        for c, o in zip(cases, res):
            if "err" in o or len(o.get("ok", [])) >= 2:
                nontriv.add((c["dialect"], c["unescape"], c["sql"]))
        run.add_eval(len(cases), len(nontriv))
        run.notes["correspondence_lexer"] = {"cases": len(cases), "disagreements": len(bad), "not_expressible": len(inexpr),
                                             "impl_ok": sum(1 for o in res if "ok" in o), "impl_err": sum(1 for o in res if "err" in o),
                                             "impl_panic": sum(1 for o in res if "panic" in o)}
        run.sample({"lex_case": cases[len(cases) // 2], "impl": res[len(cases) // 2]})
        for i in inexpr:
            if "panic" in res[i]:
                run.violation({"what": "tokenizer panicked", "dialect": cases[i]["dialect"], "input": cases[i]["sql"], "observed": res[i]})
            else:
                run.violation({"what": "tokenizer outcome not expressible in the model (new error message?)", "unchecked": "correspondence lexer",
                               "input": cases[i], "observed": res[i]}, no_input=True)
        disagree = bad
    except RuntimeError as e:
        run.violation({"what": "model evaluation failed", "unchecked": "correspondence lexer", "tool_output": str(e)[-2000:]}, no_input=True)
    shown = 0
    for i in disagree:
        if i in bad_prop:
            continue  # already reported with a failing input
        if shown < 5:
            run.violation({"what": "lexer model (coq/theories/Lexer.v) and Tokenizer disagree; the implementation's tokens still tile and spell this input, so no failing input",
                           "unchecked": "correspondence lexer", "input": cases[i], "observed": res[i]}, no_input=True)
            shown += 1
    if not pr["ok"] and not bad_prop:
        run.violation({"what": "a proof obligation of C09 no longer checks", "unchecked": failing_coq_item(pr["output"]),
                       "forbidden": pr["forbidden"], "axioms": pr["axioms"]}, no_input=True)


def replay(path):
    r = json.load(open(path))
    print(json.dumps(r, indent=1, ensure_ascii=False))
    c = r.get("input")
    if isinstance(c, str):
        c = {"dialect": r["dialect"], "sql": c, "unescape": r.get("unescape", True)}
    if isinstance(c, dict) and "sql" in c:
        print("implementation tokens:", json.dumps(run_bin("drive", ["lex"], [c])[0], ensure_ascii=False))
        print("implementation property:", json.dumps(run_bin("drive", ["lexprop"], [c])[0], ensure_ascii=False))
        print("model:", model_lex(c))
    return 0
