"""C07 — whitespace and comments between tokens never change the parse."""
import json
import re
from common import *
from lexlib import *
from corpus import corpus


def gen_all(run):
    gen_dialect_tables()


def ws_cases(run):
    cases = []
    # directed lexer-level stream: every fragment followed/preceded by a blank, in every dialect
    for f in FRAGMENTS + INTERESTING:
        if f.strip() == "" or "\n" in f or "--" in f or f in ("#", "//", "/*", "*/", "/*/"):
            continue
        pieces = ["SELECT", "a", f, "x", ",", f, "1", "y"]
        sql, gaps, pos = "", [], 0
        for i, pc in enumerate(pieces):
            if i:
                gaps.append([pos, pos + 1])
                pos += 1
            pos += len(pc)
        sql = " ".join(pieces)
        # the blanks between the pieces separate tokens by construction when the fragment cannot open a literal or a comment
        safe = re.fullmatch(r"[A-Za-z0-9_@:.,+*%<>=!~^&|?]+|-|/", f) is not None
        for d in (DIALECTS if run.tier == "thorough" else run.rng.sample(DIALECTS, 5)):
            cases.append({"dialect": d, "sql": sql, "seed": run.rng.randrange(1 << 30), "max": 60 if run.tier == "thorough" else 24,
                          "gaps": gaps if safe else []})
    n_directed = len(cases)
    for e in corpus():
        if "stdin" in e["sql"].lower():
            continue  # COPY ... FROM STDIN payload: the documented layout-sensitive exception
        ds = e["dialects"] if run.tier == "thorough" else [run.rng.choice(e["dialects"])]
        for d in ds:
            cases.append({"dialect": d, "sql": e["sql"], "seed": run.rng.randrange(1 << 30), "max": 40 if run.tier == "thorough" else 10})
    # rejected texts stay rejected: truncations of corpus texts
    for e in run.rng.sample(corpus(), min(300, len(corpus()))):
        s = e["sql"]
        if len(s) > 12 and "stdin" not in s.lower():
            cases.append({"dialect": run.rng.choice(e["dialects"]), "sql": s[:run.rng.randrange(6, len(s))], "seed": run.rng.randrange(1 << 30), "max": 6})
    return cases, n_directed


def check(run):
    run.cov["rule"] = ("layout variants: each maximal whitespace/comment run strictly between two tokens is replaced by each layout the dialect lexes purely as whitespace "
                       "(blank, two blanks, TAB, LF, CR, CRLF, NBSP, EM SPACE, block comment, nested block comment, line comments with the dialect's prefixes, mixed run); "
                       "sampled (run, layout) pairs per text; texts: a directed stream `SELECT a F x , F 1 y` for every lexer fragment F, corpus texts under accepting dialects, "
                       "truncated (rejected) corpus texts. Compared: non-whitespace token sequence, then syntax tree (or rejection). non-trivial = text with >= 1 replaceable run")
    run.cov["checker_cmd"] = "make -C coq Properties/C07.vo + coqc on generated case files (vm_compute)"
    run.cov["trusted_base"] = TRUSTED_BASE_COMMON + [
        "modelled rather than verified: Tokenizer::next_token (coq/theories/Lexer.v)",
        "parser level (trees equal under layout change) is explored on the implementation, not proved",
    ]
    t, unknown = gen_dialect_tables()
    pr = prove("C07")
    run.cov["obligations"] = pr["statements"]
    run.cov["discharged"] = pr["statements"] if pr["ok"] else 0
    run.notes["print_assumptions"] = {"closed_under_global_context": pr["closed"], "axioms": pr["axioms"]}
    run.notes["cone"] = pr["cone"]

    cases, n_directed = ws_cases(run)
    res = run_bin_parallel("drive", ["wsvariant"], cases)
    stat, nontriv, variants = {}, set(), 0
    found = 0
    for c, r in zip(cases, res):
        stat[r["status"]] = stat.get(r["status"], 0) + 1
        variants += r.get("variants", 0)
        if r["status"] == "same" and r.get("runs", 0) > 0:
            nontriv.add((c["dialect"], c["sql"]))
        if r["status"] in ("diff", "panic"):
            found += 1
            if found <= 8:
                run.violation({"what": "replacing inter-token whitespace changed the " + r.get("level", "result"), "dialect": c["dialect"], "input": c["sql"],
                               "variant": r.get("variant"), "replaced": r.get("replaced"), "by": r.get("by"), "observed": r.get("detail")})
    run.add_eval(variants, len(nontriv))
    run.notes["layout_runs"] = {"texts": len(cases), "directed": n_directed, "variants_compared": variants, "status": stat}
    run.sample({"text": cases[0]["sql"], "dialect": cases[0]["dialect"], "result": res[0]})
    run.sample({"text": cases[-1]["sql"], "dialect": cases[-1]["dialect"], "result": res[-1]})

    # lexer model correspondence on blank-sensitive inputs
    lc = []
    for f in FRAGMENTS:
        for w in [" ", "\t", "\n", "\r\n", " ", "/**/"]:
            lc.append("a" + f + w + "b")
            lc.append("a" + w + f + w + "b")
    lcases = spread(run.rng, lc, per_text=2 if run.tier == "quick" else 6)
    try:
        lres, bad, inexpr = lex_correspondence(run, lcases, "c07")
        run.notes["correspondence_lexer"] = {"cases": len(lcases), "disagreements": len(bad), "not_expressible": len(inexpr)}
        run.add_eval(len(lcases), len({(c["dialect"], c["sql"]) for c in lcases}))
        for i in bad[:5]:
            if found == 0:
                run.violation({"what": "lexer model and Tokenizer disagree on a blank-sensitive input", "unchecked": "correspondence lexer (C07 stream)",
                               "input": lcases[i], "observed": lres[i]}, no_input=True)
    except RuntimeError as e:
        run.violation({"what": "model evaluation failed", "unchecked": "correspondence lexer", "tool_output": str(e)[-2000:]}, no_input=True)
    if not pr["ok"] and found == 0:
        run.violation({"what": "a proof obligation of C07 no longer checks", "unchecked": failing_coq_item(pr["output"]),
                       "forbidden": pr["forbidden"], "axioms": pr["axioms"]}, no_input=True)


def replay(path):
    r = json.load(open(path))
    print(json.dumps(r, indent=1, ensure_ascii=False))
    if isinstance(r.get("input"), str) and r.get("variant"):
        for s in (r["input"], r["variant"]):
            print(repr(s), "->", json.dumps(run_bin("drive", ["lex"], [{"dialect": r["dialect"], "sql": s}])[0], ensure_ascii=False)[:600])
    return 0
