"""C17 — every parsed tree survives serialisation unchanged."""
import hashlib
import json
import os
from common import *
from corpus import corpus
import astenv
from astenv import coq_sval, coq_json, Interner, drop_nulls, dump_types, walk_dump

# case files depend on the model and the generated environment only, so the correspondence still
# runs when a proof or a side condition of Properties/C17.v is broken
HEADER = ("Require Import SqlV.Base SqlV.Univ SqlV.Serde SqlVGen.TypeEnv.\n"
          "From Coq Require Import ZArith.\n"
          "Definition serde_env : env := Eval vm_compute in reach_env type_env_full [s2l \"Statement\"; s2l \"Token\"].\n")
SERDE_ROOTS = ["Statement", "Token"]

# statements that exercise optional clauses the harvested test strings may leave at their defaults
EXTRA_SQL = [
    ("generic", "SELECT DISTINCT ON (a) a, b AS c, t.*, * EXCEPT (x) FROM t AS u (p, q) LEFT JOIN v USING (k) WHERE a > 1 GROUP BY a HAVING count(*) > 1 ORDER BY a DESC NULLS LAST LIMIT 3 OFFSET 2 ROWS FETCH FIRST 2 ROWS ONLY FOR UPDATE OF t NOWAIT"),
    ("generic", "WITH RECURSIVE c (n) AS (SELECT 1 UNION ALL SELECT n + 1 FROM c) SELECT n FROM c"),
    ("generic", "INSERT INTO t (a, b) VALUES (1, 'x'), (2, NULL) ON CONFLICT (a) DO UPDATE SET b = excluded.b RETURNING a"),
    ("generic", "UPDATE t AS x SET a = a + 1, b = DEFAULT FROM u WHERE x.id = u.id RETURNING *"),
    ("generic", "DELETE FROM t USING u WHERE t.id = u.id RETURNING t.id"),
    ("mysql", "DELETE t1, t2 FROM t1 INNER JOIN t2 ON t1.id = t2.id WHERE t1.x > 0 ORDER BY t1.x LIMIT 5"),
    ("generic", "MERGE INTO t USING s ON t.id = s.id WHEN MATCHED THEN UPDATE SET a = s.a WHEN NOT MATCHED THEN INSERT (id, a) VALUES (s.id, s.a)"),
    ("generic", "CREATE TABLE IF NOT EXISTS s.t (id INT PRIMARY KEY, n VARCHAR(10) NOT NULL DEFAULT 'x' COLLATE \"C\", d DECIMAL(10, 2), CONSTRAINT c UNIQUE (n), FOREIGN KEY (id) REFERENCES u (id) ON DELETE CASCADE)"),
    ("generic", "SELECT CASE WHEN a THEN 1 ELSE 2 END, CAST(x AS BIGINT), EXTRACT(YEAR FROM d), a BETWEEN 1 AND 2, b NOT IN (1, 2), c LIKE 'x%' ESCAPE '!', EXISTS (SELECT 1), f(DISTINCT y) FILTER (WHERE z) OVER (PARTITION BY p ORDER BY q ROWS BETWEEN 1 PRECEDING AND CURRENT ROW) FROM t"),
    ("postgresql", "SELECT a::text, b -> 'k', ARRAY[1, 2], INTERVAL '1' DAY, x IS NOT DISTINCT FROM y, $1, E'a\\nb', U&'d\\0061t' FROM ONLY t TABLESAMPLE BERNOULLI (10)"),
    ("generic", "ALTER TABLE t ADD COLUMN IF NOT EXISTS c INT, DROP COLUMN d CASCADE, RENAME TO u"),
    ("generic", "CREATE VIEW v (a, b) AS SELECT 1, 2 WITH NO SCHEMA BINDING"),
    ("generic", "SELECT * FROM (SELECT 1) AS s, LATERAL (SELECT 2) AS l, UNNEST(a) WITH OFFSET AS o, f(1) AS g"),
    ("generic", "EXPLAIN ANALYZE VERBOSE SELECT 1"),
    ("generic", "START TRANSACTION READ ONLY, ISOLATION LEVEL SERIALIZABLE; COMMIT AND CHAIN; ROLLBACK TO SAVEPOINT s"),
    ("generic", "GRANT SELECT, INSERT (a) ON t TO u WITH GRANT OPTION GRANTED BY g"),
    ("generic", "SELECT 'a' 'b', N'n', X'ab', 1.5e3, TRUE, NULL, -1, +2, NOT x"),
]


def stmt_key(dump):
    return hashlib.sha1(json.dumps(dump, sort_keys=True, ensure_ascii=False).encode()).hexdigest()


def gen_all(run):
    return astenv.gen_type_env()


# ---------------------------------------------------------------- diagnosis of a broken side condition

def reachable(env, roots):
    seen, todo = [], list(roots)
    while todo:
        n = todo.pop()
        if n in seen:
            continue
        seen.append(n)
        d = env.decls.get(n)
        if d:
            for f in env.fields_of(d):
                todo.extend(names_in(env, f["ty"]))
    return seen


def names_in(env, t):
    for k in ("opt", "vec", "box"):
        if k in t:
            return names_in(env, t[k])
    if "tuple" in t:
        return [n for x in t["tuple"] for n in names_in(env, x)]
    if "named" in t:
        return [env.key_of(t)]
    return []


def can_be_null(env, t, depth=0):
    """mirror of Serde.nn (negated): may a value of this type serialise to null?"""
    if depth > len(env.decls) + 16:
        return True
    if "prim" in t:
        return t["prim"] == "unit"
    if "opt" in t:
        return True
    if "vec" in t or "tuple" in t:
        return False
    if "box" in t:
        return can_be_null(env, t["box"], depth + 1)
    if "named" in t:
        d = env.decls.get(env.key_of(t))
        if d is None:
            return True
        if d["kind"] == "struct":
            fs = d["fields"]
            if fs["style"] == "unit":
                return True
            if fs["style"] == "tuple" and len(fs["fields"]) == 1:
                return can_be_null(env, fs["fields"][0]["ty"], depth + 1)
        return False
    return True


def opaque_in(t):
    if "opaque" in t:
        return [t["opaque"]]
    if "prim" in t and t["prim"] not in astenv.PRIMS:
        return [t["prim"]]
    for k in ("opt", "vec", "box"):
        if k in t:
            return opaque_in(t[k])
    if "tuple" in t:
        return [o for x in t["tuple"] for o in opaque_in(x)]
    return []


def opt_nullable_in(env, t):
    if "opt" in t:
        return ([astenv.ty_text(t)] if can_be_null(env, t["opt"]) else []) + opt_nullable_in(env, t["opt"])
    for k in ("vec", "box"):
        if k in t:
            return opt_nullable_in(env, t[k])
    if "tuple" in t:
        return [o for x in t["tuple"] for o in opt_nullable_in(env, x)]
    return []


def diagnose(env):
    """Python mirror of wf_serde/closed_env on the reachable declarations: which datum breaks it."""
    issues = []
    for key in reachable(env, SERDE_ROOTS):
        d = env.decls.get(key)
        if d is None:
            issues.append({"kind": "undeclared-type", "type": key,
                           "what": "type %s is used by a reachable declaration but no declaration of it was found in the scanned files" % key})
            continue
        for tr in ("Serialize", "Deserialize"):
            if tr not in d["derives"]:
                issues.append({"kind": "no-derive", "type": key, "trait": tr, "manual": tr in d["manual"],
                               "what": "%s does not derive %s%s" % (key, tr, " (manual impl present)" if tr in d["manual"] else "")})
            elif tr in d["manual"]:
                issues.append({"kind": "manual-impl", "type": key, "trait": tr, "what": "%s has a manual %s impl" % (key, tr)})
        for a in d["serde_attrs"]:
            issues.append({"kind": "serde-attr", "type": key, "attr": a, "what": "#[serde(%s)] on type %s" % (a, key)})
        groups = [(None, d["fields"])] if d["kind"] == "struct" else [(v["name"], v["fields"]) for v in d["variants"]]
        if d["kind"] == "enum":
            for v in d["variants"]:
                for a in v["serde_attrs"]:
                    issues.append({"kind": "serde-attr", "type": key, "variant": v["name"], "attr": a,
                                   "what": "#[serde(%s)] on variant %s::%s" % (a, key, v["name"])})
        for vn, fs in groups:
            for i, f in enumerate(fs["fields"]):
                where = {"type": key, "variant": vn, "field": f["name"] if f["name"] is not None else i}
                label = "%s%s.%s" % (key, "::" + vn if vn else "", where["field"])
                for a in f["serde_attrs"]:
                    issues.append(dict(where, kind="serde-attr", attr=a, what="#[serde(%s)] on field %s" % (a, label)))
                for o in opaque_in(f["ty"]):
                    issues.append(dict(where, kind="opaque-type", ty=o, what="field %s has type %s outside the modelled data model" % (label, o)))
                for o in opt_nullable_in(env, f["ty"]):
                    issues.append(dict(where, kind="option-of-nullable", ty=o,
                                       what="field %s: %s — Some(x) with x serialising to null reads back as None" % (label, o)))
    return issues


def stmts_touching(issue, all_stmts):
    """statements of the run whose dump contains the declaration / field of the issue"""
    hits = []
    tname = issue.get("type", "").split("<")[0]
    for s in all_stmts:
        found = []

        def f(n, p, par, key):
            if n[0] == "st" and n[1] == tname:
                found.append(n)
            elif n[0] == "en" and n[1] == tname and (issue.get("variant") in (None, n[2])):
                found.append(n)
        walk_dump(s["dump"], f)
        if found:
            hits.append(s)
    return hits


# ---------------------------------------------------------------- the check

FLAGS = ["rt_value", "rt_text", "rt_dump_equal", "reser_equal", "text_deterministic"]


def flag_failures(o):
    bad = [k for k in FLAGS if o.get(k) is False]
    if "to_value_error" in o:
        bad.append("to_value_error")
    if "panic" in o:
        bad.append("panic")
    return bad


def check(run):
    thorough = run.tier == "thorough"
    run.cov["rule"] = ("implementation oracle: every corpus text (strings of /repo's tests accepted by a dialect, + directed extras) parsed under "
                       "one (quick) / every (thorough) accepting dialect, each statement and each token list: serde_json to_value/from_value and "
                       "to_string/from_str round trips, dump equality after the round trip, re-serialisation equality; "
                       "model correspondence: dumped value, serde_json document and the null-dropped document evaluated against Serde.ser/de in the kernel VM. "
                       "non-trivial = distinct value dump (statement or token list)")
    run.cov["checker_cmd"] = "make -C coq Properties/C17.vo (coqc 8.16.1, full .vo build) + coqc on generated case files"
    run.cov["trusted_base"] = TRUSTED_BASE_COMMON + [
        "translator harness/astx/src/bin/astx-env.rs (syn): declarations, derives under cfg_attr, serde/visit attributes, manual impls -> coq/gen/TypeEnv.v (lib/astenv.py monomorphises generic declarations)",
        "value dump: harness/astx/src/lib.rs, a serde::Serializer independent of serde_json; each dumped value is type-checked against the environment inside Coq (check_type, proved sound)",
        "modelled rather than verified: serde-derive's output for a declaration of a given shape (typing judgment has_type) and serde_json's value (de)serializer (Serde.ser / Serde.de); validated on every run by the correspondence",
        "feature bigdecimal (external Serialize impl) is outside the model: the harness builds with features serde,visitor only",
    ]
    env = astenv.gen_type_env()
    pr = prove("C17")
    run.cov["obligations"] = pr["statements"]
    run.cov["discharged"] = pr["statements"] if pr["ok"] else 0
    run.notes["print_assumptions"] = {"closed_under_global_context": pr["closed"], "axioms": pr["axioms"]}
    run.notes["cone"] = pr["cone"]
    run.notes["type_env"] = {"declarations": len(env.order), "reachable_from_Statement_Token": len(reachable(env, SERDE_ROOTS)),
                             "generic_instances": [k for k in env.order if "<" in k],
                             "translator_obligations": env.obligations}
    run.assumptions = ["serde-derive emits, for a declaration without serde attributes, the serializer calls described by Univ.has_type",
                       "serde_json 1.0 value serializer/deserializer conventions as in Serde.v (validated by correspondence)",
                       "harness built without feature bigdecimal"]

    # ---- the property itself on the implementation
    cases = []
    for e in corpus():
        ds = e["dialects"] if thorough else [e["dialects"][run.rng.randrange(len(e["dialects"]))]]
        for d in ds:
            cases.append({"sql": e["sql"], "dialect": d})
    for d, s in EXTRA_SQL:
        cases.append({"sql": s, "dialect": d})
    res = run_bin_parallel("astx-drive", ["serde"], cases, pkg="astx")
    stmts, seen = [], {}
    n_impl = 0
    impl_bad = []
    status = {}
    for c, r in zip(cases, res):
        status[r["status"]] = status.get(r["status"], 0) + 1
        if r["status"] != "ok":
            continue
        if r.get("vec_rt") is False:
            impl_bad.append({"input": c["sql"], "dialect": c["dialect"], "failed": ["Vec<Statement> round trip"]})
        for i, o in enumerate(r["stmts"]):
            n_impl += 1
            bad = flag_failures(o)
            if bad:
                impl_bad.append({"input": c["sql"], "dialect": c["dialect"], "statement_index": i, "failed": bad,
                                 "detail": {k: o.get(k) for k in ("rt_value_error", "rt_text_error", "to_value_error", "panic") if k in o}})
            if "dump" in o and "json" in o:
                k = stmt_key(o["dump"])
                if k not in seen:
                    seen[k] = len(stmts)
                    stmts.append({"sql": c["sql"], "dialect": c["dialect"], "index": i, "dump": o["dump"], "json": o["json"],
                                  "dropnull": o.get("dropnull"), "dropnull_dump": o.get("dropnull_dump"), "size": o.get("size", 0),
                                  "ty": "stmt"})
    run.add_eval(n_impl, len(stmts))
    # token lists
    tcases = cases if thorough else [c for i, c in enumerate(cases) if i % 3 == 0]
    tres = run_bin_parallel("astx-drive", ["tokens"], tcases, pkg="astx")
    toks, tseen, n_tok = [], {}, 0
    for c, r in zip(tcases, tres):
        if r["status"] != "ok":
            continue
        o = r["obs"]
        n_tok += 1
        bad = flag_failures(o)
        if bad:
            impl_bad.append({"input": c["sql"], "dialect": c["dialect"], "what_value": "token list", "failed": bad})
        if "dump" in o and "json" in o:
            k = stmt_key(o["dump"])
            if k not in tseen:
                tseen[k] = 1
                toks.append({"sql": c["sql"], "dialect": c["dialect"], "dump": o["dump"], "json": o["json"],
                             "dropnull": o.get("dropnull"), "dropnull_dump": o.get("dropnull_dump"), "size": o.get("size", 0), "ty": "toks"})
    run.add_eval(n_tok, len(toks))
    run.notes["implementation_round_trip"] = {"texts": len(cases), "parse_status": status, "statements": n_impl,
                                              "distinct_statement_values": len(stmts), "token_lists": n_tok,
                                              "distinct_token_lists": len(toks), "failures": len(impl_bad)}
    reported = set()
    for b in impl_bad:
        if b["input"] not in reported and len(reported) < 3:
            reported.add(b["input"])
            run.violation(dict(b, what="serde_json round trip of a parsed value is not the identity"))
    if stmts:
        run.sample({"sql": stmts[0]["sql"], "dialect": stmts[0]["dialect"], "round_trip": "ok", "dump_nodes": stmts[0]["size"]})

    # ---- coverage of the environment by the sampled values
    covered = set()
    for s in stmts + toks:
        s["types"] = dump_types(s["dump"])
        covered |= s["types"]
    reach = reachable(env, SERDE_ROOTS)
    base_reach = {k.split("<")[0] for k in reach}
    decl_cov = {t for t, _ in covered}
    variants_total = sum(len(env.decls[k]["variants"]) for k in reach if k in env.decls and env.decls[k]["kind"] == "enum" and env.decls[k]["name"] != "Keyword")
    variants_cov = len({(t, v) for t, v in covered if v is not None and t != "Keyword"})
    run.notes["value_coverage"] = {"declarations_reachable": len(base_reach), "declarations_seen_in_values": len(decl_cov & base_reach),
                                   "enum_variants_reachable_excluding_Keyword": variants_total, "enum_variants_seen": variants_cov,
                                   "declarations_never_seen": sorted(base_reach - decl_cov)[:60]}

    # ---- model vs implementation in the kernel VM
    deps_ok = True
    if not pr["make_ok"]:
        deps_ok, _ = coq_make(["theories/Serde.vo", "gen/TypeEnv.vo"])
    model_ok = deps_ok and os.path.exists(os.path.join(COQ, "theories/Serde.vo")) and os.path.exists(os.path.join(COQ, "gen/TypeEnv.vo"))
    corr_bad = []
    if model_ok:
        sel = select_cases(run, stmts, 800 if not thorough else 10 ** 9, 2500 if not thorough else 20000)
        sel += select_cases(run, toks, 150 if not thorough else 10 ** 9, 2500 if not thorough else 20000)
        corr_bad = correspondence(run, sel)
    else:
        run.notes["correspondence"] = "not run: theories/Serde.vo or gen/TypeEnv.vo does not build"

    # ---- broken obligations: directed search, then report
    issues = diagnose(env)
    run.notes["wf_serde_issues"] = [i["what"] for i in issues]
    if not pr["ok"] or issues or env.obligations:
        found_input = bool(impl_bad)
        for isu in issues[:10]:
            hits = stmts_touching(isu, stmts)
            run.notes.setdefault("directed_search", []).append({"issue": isu["what"], "statements_exercising_it": len(hits)})
            # the whole corpus already went through the oracle; hits that failed are in impl_bad.
            # Second chance: every accepting dialect for the texts that touch the declaration.
            if not found_input and hits and not thorough:
                extra = []
                texts = {h["sql"] for h in hits[:200]}
                for e in corpus():
                    if e["sql"] in texts:
                        extra += [{"sql": e["sql"], "dialect": d} for d in e["dialects"]]
                for c, r in zip(extra, run_bin_parallel("astx-drive", ["serde"], extra, pkg="astx")):
                    if r["status"] == "ok":
                        for i, o in enumerate(r["stmts"]):
                            bad = flag_failures(o)
                            if bad and not found_input:
                                found_input = True
                                run.violation({"what": "serde_json round trip of a parsed value is not the identity", "input": c["sql"],
                                               "dialect": c["dialect"], "statement_index": i, "failed": bad, "cause": isu["what"]})
        if not found_input:
            for isu in issues[:6]:
                run.violation({"what": "side condition wf_serde of C17_roundtrip no longer holds for the regenerated type environment",
                               "unchecked": "Properties/C17.v: serde_env_wf / serde_env_closed", "obligation": isu["what"], "datum": isu,
                               "search": "no parsed corpus statement exercising it fails the implementation round trip"}, no_input=True)
            for o in env.obligations[:6]:
                run.violation({"what": "the translator could not interpret an item of the AST sources", "unchecked": "translator obligation " + o["key"],
                               "obligation": o}, no_input=True)
            if not pr["ok"] and not issues and not env.obligations:
                run.violation({"what": "a proof obligation of C17 no longer checks", "unchecked": failing_coq_item(pr["output"]),
                               "forbidden": pr["forbidden"], "axioms": pr["axioms"]}, no_input=True)
    if corr_bad and not impl_bad:
        for b in corr_bad[:5]:
            run.violation(dict(b, what="model Serde.ser/de and serde_json disagree on a value the implementation round-trips",
                               unchecked="correspondence ser/de"), no_input=True)


def select_cases(run, items, limit, max_size):
    """greedy cover of (type, variant) pairs first, then random fill"""
    pool = [s for s in items if s["size"] <= max_size]
    if len(pool) <= limit:
        return pool
    chosen, covered = [], set()
    rest = sorted(pool, key=lambda s: s["size"])
    # greedy: repeatedly take the item adding most unseen pairs (bounded passes)
    cand = list(rest)
    while cand and len(chosen) < limit * 2 // 3:
        best, gain = None, 0
        for s in cand:
            g = len(s["types"] - covered)
            if g > gain:
                best, gain = s, g
        if best is None:
            break
        chosen.append(best)
        covered |= best["types"]
        cand.remove(best)
    ids = {id(s) for s in chosen}
    rest = [s for s in pool if id(s) not in ids]
    run.rng.shuffle(rest)
    return chosen + rest[:limit - len(chosen)]


def case_term(s, I):
    dn = s.get("dropnull")
    if dn in (None, "nonull"):
        d = "DN_none"
    else:
        jd = coq_json(drop_nulls(s["json"]), I)
        if dn == "same":
            d = "(DN_same %s)" % jd
        elif dn == "error":
            d = "(DN_err %s)" % jd
        else:
            d = "(DN_other %s %s)" % (jd, coq_sval(s["dropnull_dump"], I))
    return "(%s,\n   %s,\n   %s)" % (coq_sval(s["dump"], I), coq_json(s["json"], I), d)


TY = {"stmt": '(TNamed (s2l "Statement"))', "toks": '(TVec (TNamed (s2l "Token")))'}


def correspondence(run, sel):
    out = []
    total = 0
    for kind in ("stmt", "toks"):
        items = [s for s in sel if s["ty"] == kind]
        if not items:
            continue
        I = Interner()
        terms = [case_term(s, I) for s in items]
        shard = max(4, (len(terms) + NCPU - 1) // NCPU)
        try:
            bad = run_coq_cases("c17_" + kind, HEADER + I.header(), terms, "(case_ok serde_env %s)" % TY[kind],
                                shard_size=shard, per_case_type="(sval * json * dropnull)")
        except RuntimeError as e:
            run.violation({"what": "model evaluation failed", "unchecked": "correspondence ser/de (%s)" % kind, "tool_output": str(e)[-2000:]}, no_input=True)
            continue
        total += len(terms)
        run.add_eval(len(terms), len(terms))
        run.notes.setdefault("correspondence", {})[kind] = {"cases": len(terms), "disagreements": len(bad),
                                                            "null_dropped_documents": sum(1 for s in items if s.get("dropnull") not in (None, "nonull")),
                                                            "null_dropped_rejected_by_both": sum(1 for s in items if s.get("dropnull") == "error")}
        for i in bad[:5]:
            s = items[i]
            I2 = Interner()
            t = case_term(s, I2)
            rc, o = coq_eval(HEADER + I2.header(), "case_code serde_env %s %s" % (TY[kind], t))
            codes = re.findall(r"=\s*(\d+)\s*:\s*N\b", o.replace("\n", " "))
            code = int(codes[-1]) if codes else None
            meaning = {1: "dumped value is not well-typed in the regenerated environment", 2: "Serde.ser differs from serde_json::to_value",
                       3: "Serde.de of the document differs from the value", 4: "Serde.de of the null-dropped document differs from from_value"}.get(code, "?")
            out.append({"input": s["sql"], "dialect": s["dialect"], "value": kind, "code": code, "meaning": meaning})
        if items:
            run.sample({"correspondence": kind, "sql": items[0]["sql"], "dialect": items[0]["dialect"], "agree": 0 not in bad})
    return out


def replay(path):
    r = json.load(open(path))
    print(json.dumps(r, indent=1, ensure_ascii=False))
    if "input" in r and "dialect" in r:
        mode = "tokens" if r.get("what_value") == "token list" or r.get("value") == "toks" else "serde"
        o = run_bin("astx-drive", [mode], [{"sql": r["input"], "dialect": r["dialect"]}], pkg="astx")[0]

        def strip(x):
            if isinstance(x, dict):
                return {k: strip(v) for k, v in x.items() if k not in ("dump", "json", "rt_dump", "dropnull_dump")}
            if isinstance(x, list):
                return [strip(v) for v in x]
            return x
        print("implementation now:", json.dumps(strip(o), ensure_ascii=False))
    return 0
