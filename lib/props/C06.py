"""C06 — printed string literals and quoted identifiers denote exactly their payload."""
import itertools
import json
from common import *
from lexlib import *

HEADER = LEX_HEADER + "Require Import SqlV.Escape.\n" + LEXOUT_EQB + r"""
Definition lit_case (c : dialect * list N * list N * lexout) : bool :=
  match c with (d, model_print, impl_print, impl_lex) =>
    str_eqb model_print impl_print && lexout_eqb (tokenize d std_uni true impl_print) impl_lex end.
"""

STR_KINDS = ["KSingle", "KDouble", "KTripleSingle", "KTripleDouble", "KByteSingle", "KByteDouble", "KTripleByteSingle",
             "KTripleByteDouble", "KRawSingle", "KRawDouble", "KTripleRawSingle", "KTripleRawDouble", "KNational",
             "KEscaped", "KUnicode", "KHex"]
QUOTE = {"KSingle": "'", "KDouble": '"', "KTripleSingle": "'", "KTripleDouble": '"', "KByteSingle": "'", "KByteDouble": '"',
         "KTripleByteSingle": "'", "KTripleByteDouble": '"', "KRawSingle": "'", "KRawDouble": '"', "KTripleRawSingle": "'",
         "KTripleRawDouble": '"', "KNational": "'", "KEscaped": "'", "KUnicode": "'", "KHex": "'"}
ALPHABET = ["'", '"', "`", "\\", "$", "]", "\n", "\x00", "a", "é", "\U0001F600", "t", " ", "T"]


def dollar_scan(text):
    """Reference re-implementation of the pinned tokenize_dollar_preceded_value (it fixes the
    class boundary of the dollar-quoted known finding): returns (payload, tag, rest) or None."""
    assert text[0] == "$"
    i = 1
    if i < len(text) and text[i] == "$":
        i += 1
        s, prev = "", None
        while i < len(text):
            ch = text[i]
            if prev == "$":
                if ch == "$":
                    return (s, None, text[i + 1:])
                s += "$" + ch
            elif ch != "$":
                s += ch
            prev = ch
            i += 1
        return None
    j = i
    while j < len(text) and (text[j].isalnum() or text[j] == "_"):
        j += 1
    tag = text[i:j]
    if j >= len(text) or text[j] != "$":
        return None  # placeholder
    i = j + 1
    s = ""
    while True:
        k = i
        while k < len(text) and text[k] != "$":
            k += 1
        s += text[i:k]
        if k >= len(text):
            return None
        i = k + 1
        maybe = "$"
        ok = True
        for c in tag:
            if i >= len(text):
                return None
            nc = text[i]
            i += 1
            maybe += nc
            if nc != c:
                s += maybe
                ok = False
                break
        if not ok:
            continue
        if i < len(text) and text[i] == "$":
            return (s, tag or None, text[i + 1:])
        s += maybe



def kinds():
    ks = [{"kind": k} for k in STR_KINDS]
    ks += [{"kind": "Ident", "q": q} for q in ['"', "`", "[", "'"]]
    ks += [{"kind": "Dollar", "tag": None}, {"kind": "Dollar", "tag": "t"}]
    return ks


def kind_name(k):
    if k["kind"] == "Ident":
        return "Ident" + k["q"]
    if k["kind"] == "Dollar":
        return "Dollar:" + str(k["tag"])
    return k["kind"]


def model_print_term(k, p):
    if k["kind"] == "Ident":
        return "(print_ident %d %s)" % (ord(k["q"]), coq_str(p))
    if k["kind"] == "Dollar":
        return "(print_dollar %s %s)" % (coq_opt(k["tag"], coq_str), coq_str(p))
    return "(print_str %s %s)" % (k["kind"], coq_str(p))


def expected_token(k, p):
    if k["kind"] == "Ident":
        return {"k": "Word", "v": p, "q": k["q"]}
    if k["kind"] == "Dollar":
        return {"k": "Dollar", "v": p, "tag": k["tag"]}
    return {"k": "Str", "kind": k["kind"], "s": p}


def tok_matches(t, e):
    return all(t.get(f) == v for f, v in e.items())


def roundtrips(k, p, out):
    lx = out.get("lex", {})
    toks = lx.get("ok")
    return toks is not None and len(toks) == 1 and tok_matches(toks[0][0], expected_token(k, p)) and toks[0][1:] == [1, 1]


def in_charset(cs, ch):
    c = ord(ch)
    if c < 128:
        return (int(cs["mask"]) >> c) & 1 == 1
    return any(lo <= c <= hi for lo, hi in cs["ranges"])


def classes(k, d, p, tables):
    """Decidable known-finding classes (mirrors Escape.known_quoted and the verbatim classes)."""
    dt = tables["dialects"][d]
    kind = k["kind"]
    out = []
    if kind == "Ident" and dt["piq"] == "redshift":
        # Redshift treats a quote/bracket as an identifier delimiter only if the first
        # non-blank character after it can start an identifier
        rest = p + ("]" if k["q"] == "[" else k["q"])
        i = 0
        while i < len(rest) and in_charset(tables["uni"]["whitespace"], rest[i]):
            i += 1
        if i >= len(rest) or not in_charset(dt["ident_start"], rest[i]):
            out.append("redshift:needs-identifier-start")
    if kind in ("KSingle", "KDouble") or (kind == "Ident" and k["q"] in "\"`'"):
        q = QUOTE.get(kind) or k["q"]
        bs = dt["backslash"] if kind != "Ident" else False
        if q + q in p:
            out.append("quote-doubling:doubled-quote")
        if "\\" + q in p:
            out.append("quote-doubling:backslash-quote")
        if bs and "\\" in p:
            out.append("quote-doubling:backslash-dialect")
        if kind != "Ident" and dt["triple"] and p.startswith(q):
            out.append("quote-doubling:triple-leading-quote")
    elif kind in ("KNational", "KHex"):
        if "'" in p:
            out.append("verbatim:terminator")
        if "\\" in p:
            out.append("verbatim:backslash")
    elif kind in ("KByteSingle", "KByteDouble", "KRawSingle", "KRawDouble"):
        q = QUOTE[kind]
        if q in p:
            out.append("verbatim:terminator")
    elif kind.startswith("KTriple"):
        q = QUOTE[kind]
        if q * 3 in p or p.endswith(q):
            out.append("verbatim:terminator")
        if "Raw" not in kind and "Byte" not in kind and dt["backslash"] and "\\" in p:
            out.append("verbatim:backslash")
    elif kind == "Ident" and k["q"] == "[":
        if "]" in p:
            out.append("verbatim:terminator")
    elif kind == "Dollar":
        # class boundary = what the pinned scanner does with the verbatim print
        printed = ("$%s$%s$%s$" % (k["tag"], p, k["tag"])) if k["tag"] else ("$$%s$$" % p)
        r = dollar_scan(printed)
        if "$" in p and (r is None or r[0] != p or r[2] != ""):
            out.append("verbatim:dollar-in-payload")
    return out


def payloads(run):
    ps = [""]
    maxlen = 3 if run.tier == "quick" else 4
    for n in range(1, maxlen + 1):
        if n <= 2 or run.tier == "thorough" and n <= 3:
            ps += ["".join(t) for t in itertools.product(ALPHABET, repeat=n)]
        else:
            ps += ["".join(run.rng.choice(ALPHABET) for _ in range(n)) for _ in range(600)]
    for _ in range(300 if run.tier == "quick" else 3000):
        n = run.rng.randrange(4, 13)
        ps.append("".join(run.rng.choice(ALPHABET + ["''", '""', "\\'", "\\\\", "$$", "$t$", "$T$", "'''"]) for _ in range(n)))
    return list(dict.fromkeys(ps))


def check(run):
    run.cov["rule"] = ("payload stream: all strings of length <= 2 (thorough: <= 3) over {' \" ` \\ $ ] LF NUL a é U+1F600 t space}, sampled longer strings biased to quote/backslash/"
                       "dollar pairs; x every literal/identifier kind the tree offers x dialects (quick: 4 sampled per payload+kind, thorough: all 13). distinct = distinct (kind, dialect, payload); "
                       "non-trivial = payload contains at least one of the special characters")
    run.cov["checker_cmd"] = "make -C coq Properties/C06.vo + coqc on generated case files (vm_compute)"
    run.cov["trusted_base"] = TRUSTED_BASE_COMMON + [
        "modelled rather than verified: EscapeQuotedString / EscapeEscapedStringLiteral / EscapeUnicodeStringLiteral / Value and Ident Display for literals (coq/theories/Escape.v) and the tokenizer (Lexer.v)",
        "theorems cover: E'..' (all payloads), '..' / quoted identifiers (payloads outside the decidable known class), N'..'/X'..' verbatim; the remaining kinds (U&, B, R, triple, dollar, [..]) are covered by correspondence + the decision rule, not yet by a round-trip theorem",
    ]
    tables, unknown = gen_dialect_tables()
    pr = prove("C06")
    run.cov["obligations"] = pr["statements"]
    run.cov["discharged"] = pr["statements"] if pr["ok"] else 0
    run.notes["print_assumptions"] = {"closed_under_global_context": pr["closed"], "axioms": pr["axioms"]}
    run.notes["cone"] = pr["cone"]

    ks = kinds()
    # which dialects lex which kind at all: benign payload
    probe = [dict(k, payload="ab", dialect=d) for k in ks for d in DIALECTS]
    pres = run_bin("drive", ["literal"], probe)
    supports = {(kind_name(c), c["dialect"]) for c, o in zip(probe, pres) if roundtrips(c, "ab", o)}
    run.notes["kinds_lexed_by_dialect"] = {kind_name(k): sorted(d for d in DIALECTS if (kind_name(k), d) in supports) for k in ks}

    cases = []
    for p in payloads(run):
        for k in ks:
            ds = [d for d in DIALECTS if (kind_name(k), d) in supports]
            if not ds:
                continue
            if run.tier == "quick":
                ds = run.rng.sample(ds, min(len(ds), 2 if len(p) > 1 else 4))
            for d in ds:
                cases.append(dict(k, payload=p, dialect=d))
    res = run_bin_parallel("drive", ["literal"], cases)

    known_keys = dict(known_findings("C06"))
    fails, nontriv = 0, set()
    unlisted = 0
    for c, o in zip(cases, res):
        p = c["payload"]
        if any(ch in p for ch in "'\"`\\$]\n\x00"):
            nontriv.add((kind_name(c), c["dialect"], p))
        if "panic" in o:
            run.violation({"what": "printing/tokenizing a literal panicked", "input": c, "observed": o})
            continue
        if roundtrips(c, p, o):
            continue
        fails += 1
        cls = classes(c, c["dialect"], p, tables)
        hit = [x for x in cls if x in known_keys]
        if hit:
            for x in hit:
                run.known(x, known_keys[x])
        else:
            unlisted += 1
            if unlisted <= 8:
                run.violation({"what": "printed literal does not tokenize back to one token with the same payload (payload outside every known class)",
                               "kind": kind_name(c), "dialect": c["dialect"], "input": p, "printed": o.get("printed"), "observed": o.get("lex")})
    run.add_eval(len(cases), len(nontriv))
    run.notes["implementation_roundtrip"] = {"cases": len(cases), "failed_in_known_class": fails - unlisted, "failed_outside_classes": unlisted}
    run.sample({"literal": cases[len(cases) // 3], "impl": res[len(cases) // 3]})

    # model vs implementation: printer and lexer of the printed text
    terms, idx = [], []
    sub = list(range(len(cases)))
    if run.tier == "quick" and len(sub) > 12000:
        sub = sorted(run.rng.sample(sub, 12000))
    for i in sub:
        c, o = cases[i], res[i]
        if "panic" in o:
            continue
        oc = outcome_coq(o["lex"])
        if oc is None:
            continue
        terms.append("(dl_%s, %s, %s, %s)" % (c["dialect"], model_print_term(c, c["payload"]), coq_str(o["printed"]), oc))
        idx.append(i)
    try:
        bad = run_coq_cases("c06", HEADER, terms, "lit_case", shard_size=600, per_case_type="(dialect * list N * list N * lexout)")
        run.notes["correspondence_printer_and_lexer"] = {"cases": len(terms), "disagreements": len(bad)}
        for b in bad[:5]:
            i = idx[b]
            if unlisted == 0:
                run.violation({"what": "model (Escape.v printer / Lexer.v) and implementation disagree on a literal", "unchecked": "correspondence printer+lexer",
                               "input": cases[i], "observed": res[i]}, no_input=True)
    except RuntimeError as e:
        run.violation({"what": "model evaluation failed", "unchecked": "correspondence printer+lexer", "tool_output": str(e)[-2000:]}, no_input=True)
    if not pr["ok"] and unlisted == 0:
        run.violation({"what": "a proof obligation of C06 no longer checks", "unchecked": failing_coq_item(pr["output"]),
                       "forbidden": pr["forbidden"], "axioms": pr["axioms"]}, no_input=True)


def replay(path):
    r = json.load(open(path))
    print(json.dumps(r, indent=1, ensure_ascii=False))
    return 0
