"""C18 — every data type value prints to SQL that parses back to itself.

Protocol (notes/CONVENTIONS.md):
 1 build harness/dtx against the current /repo tree;
 2 translator dtx_extract -> family tables of the regular Display arms and of the regular arms of the
   keyword match in parse_data_type_helper (+ hashes pinning the irregular arms and the helper
   functions the hand model mirrors) -> coq/gen/DataTypeTables.v;
 3 Properties/C18.v re-checked (generic theorems of theories/DataTypeRTProofs.v instantiated on the
   generated tables; side conditions by vm_compute; Print Assumptions);
 4 the property itself on the implementation (search oracle): AST-first enumeration of DataType values
   built from serde JSON, printed with Display and parsed stand-alone / inside CAST / inside CREATE
   TABLE under all 13 dialects.  Scope = "the form the parser itself produces", decided without
   Display: a value is *certified* for a dialect when the reference text built from the PARSER-side
   table parses to it (or when it was obtained by parsing a corpus text); a certified value must come
   back identical in all three contexts; any value the parser returns for a printed text must itself
   be a print/parse fixpoint;
 5 correspondence: tokens of the printed text and the stand-alone parse outcome are compared with the
   model's printer and parser inside the kernel VM;
 6 directed search: a failing table side condition names the constructor; the values of that
   constructor are the candidate failing inputs.
"""
import collections
import itertools
import json
import os
import re
import subprocess
from common import *
from corpus import corpus

PKG = "dtx"
SRC_ROOT = os.environ.get("VERIF_C18_SRC", REPO)            # self-test hook (translator source root)
SELFTEST_BIN = os.environ.get("VERIF_C18_SELFTEST_BIN")     # self-test hook (scratch binaries)
import common as _common
HEADER = "Require Import SqlV.Base SqlV.DataTypeRT SqlVGen.DataTypeTables.\n"
MAX_REPORTS = 8
U64 = 2 ** 64 - 1
DIALECTS = ["generic", "ansi", "bigquery", "clickhouse", "databricks", "duckdb", "hive", "mssql",
            "mysql", "postgresql", "redshift", "snowflake", "sqlite"]
DIALECT_TYPE = {"GenericDialect": "generic", "AnsiDialect": "ansi", "BigQueryDialect": "bigquery",
                "ClickHouseDialect": "clickhouse", "DatabricksDialect": "databricks", "DuckDbDialect": "duckdb",
                "HiveDialect": "hive", "MsSqlDialect": "mssql", "MySqlDialect": "mysql",
                "PostgreSqlDialect": "postgresql", "RedshiftSqlDialect": "redshift",
                "SnowflakeDialect": "snowflake", "SQLiteDialect": "sqlite"}
BACKSLASH_DIALECTS = {"bigquery", "clickhouse", "mysql", "snowflake"}
# C06 payload set (label strings)
PAYLOADS = ["a", "a'b", 'a"b', "a\\b", "é", ""]

# hashes of the irregular arms / helper functions whose behaviour theories/DataTypeRT.v mirrors by hand
# (filled from the unchanged tree; a changed hash makes the check re-validate the hand model by
# correspondence and say so in the evidence — it is not by itself a violation)
PINNED_FILE = os.path.join(VERIF, "lib", "props", "C18_pinned.json")
SUPPORT_FILE = os.path.join(VERIF, "lib", "props", "C18_support.json")
CERT_FILE = os.path.join(VERIF, "lib", "props", "C18_certified.json")


def _bx(fn, *a, **k):
    if not SELFTEST_BIN:
        return fn(*a, **k)
    old = _common.bin_path
    _common.bin_path = lambda pkg, name: os.path.join(SELFTEST_BIN, name) if pkg == PKG else old(pkg, name)
    _common._built.add(PKG)
    try:
        return fn(*a, **k)
    finally:
        _common.bin_path = old


def jd(v):
    return json.dumps(v, sort_keys=True, ensure_ascii=False)


# ------------------------------------------------------------------ translator -> Coq tables

def extract():
    return _bx(run_bin, "dtx_extract", [SRC_ROOT], pkg=PKG)[0]


def gate_names(g):
    return None if g is None else [DIALECT_TYPE.get(x, x) for x in g]


def coq_gate(g):
    g = gate_names(g)
    return "None" if g is None else "(Some %s)" % coq_strs(g)


def gen_tables(run=None):
    tr = extract()
    prows = []
    for r in tr["print_rows"]:
        fam = {"nullary": "FNullary", "optlen": "(FOptLen %s)" % coq_bool(r.get("unsigned", False)), "charlen": "FCharLen",
               "exact": "FExact", "time": "FTime"}[r["family"]]
        prows.append("  {| p_ctor := %s; p_fam := %s; p_words := %s |}" % (coq_str(r["ctor"]), fam, coq_strs(r["words"])))
    parows = []
    for r in tr["parse_rows"]:
        if r["keyword"] == "_":
            continue
        if "alts" in r:
            alts = []
            for a in r["alts"]:
                fam = {"nullary": "PNullary", "optlen": "POptLen", "charlen": "PCharLen", "exact": "PExact", "time": "PTime",
                       "timetz": "PTimeTz", "strlist": "PStrList"}.get(a["family"])
                if a["family"] == "optlen_u":
                    fam = "(POptLenU %s)" % coq_str(a["unsigned_ctor"])
                alts.append("{| a_kws := %s; a_ctor := %s; a_fam := %s |}" % (coq_strs(a["kws"]), coq_str(a["ctor"]), fam))
            kind = "RAlts [" + "; ".join(alts) + "]"
        else:
            kind = "RIrregular %s" % coq_str(r["key"].split("Keyword::")[1])
        parows.append("  {| r_kw := %s; r_gate := %s; r_kind := %s |}" % (coq_str(r["keyword"]), coq_gate(r["gate"]), kind))
    v = ["(* GENERATED by ./check C18 from the source tree (harness/dtx dtx_extract). Do not edit. *)",
         "Require Import SqlV.Base SqlV.DataTypeRT.",
         "Definition print_rows : list prow := [", ";\n".join(prows), "].",
         "Definition parse_rows : list parow := [", ";\n".join(parows), "].",
         "Definition dt_tables : tables := {| t_print := print_rows; t_parse := parse_rows |}.",
         "Definition dt_ctors : list (list N) := " + coq_strs([c["name"] for c in tr["ctors"]]) + ".",
         "Definition dt_obligations : list (list N * list N) := [" + "; ".join(
             "(%s, %s)" % (coq_str(o["key"]), coq_str(o["what"])) for o in tr["obligations"]) + "]."]
    write_if_changed(os.path.join(GEN, "DataTypeTables.v"), "\n".join(v) + "\n")
    return tr


def gen_all(run):
    return gen_tables(run)


# ------------------------------------------------------------------ values (serde JSON of DataType)

def ident(v, q=None):
    return {"value": v, "quote_style": q}


class Shapes:
    """What the translator says about each constructor (family by the Display side)."""

    def __init__(self, tr):
        self.tr = tr
        self.pfam = {r["ctor"]: r for r in tr["print_rows"]}
        self.params = {c["name"]: c["params"] for c in tr["ctors"]}
        # parser side: ctor -> (keyword path words, family) for the reference text
        self.ppath = {}
        for r in tr["parse_rows"]:
            for a in r.get("alts", []):
                self.ppath.setdefault(a["ctor"], ([r["keyword"]] + a["kws"], a["family"], False))
                if a["family"] == "optlen_u":
                    self.ppath.setdefault(a["unsigned_ctor"], ([r["keyword"]] + a["kws"], "optlen", True))
        self.keywords = set(tr["all_keywords"])
        self.type_keywords = {r["keyword"] for r in tr["parse_rows"]}


def ctor_of(v):
    return v if isinstance(v, str) else next(iter(v))


def leaf_values(sh, thorough):
    """All constructors with every combination of their parameters over {absent, 0, 1, 2^64-1}."""
    ns = [None, 0, 1, U64]
    out = []
    for c in sh.tr["ctors"]:
        name, params = c["name"], c["params"]
        if not params:
            out.append(name)
        elif params == ["Option<u64>"]:
            out += [{name: n} for n in ns]
        elif params == ["u64"]:
            out += [{name: n} for n in ns[1:]]
        elif params == ["Option<CharacterLength>"]:
            out.append({name: None})
            out.append({name: "Max"})
            for n in ns[1:]:
                for u in (None, "Characters", "Octets"):
                    out.append({name: {"IntegerLength": {"length": n, "unit": u}}})
        elif params == ["ExactNumberInfo"]:
            out.append({name: "None"})
            out += [{name: {"Precision": n}} for n in ns[1:]]
            out += [{name: {"PrecisionAndScale": [p, s]}} for p in ns[1:] for s in ns[1:]]
        elif params == ["Option<u64>", "TimezoneInfo"]:
            out += [{name: [n, z]} for n in ns for z in ("None", "WithTimeZone", "WithoutTimeZone", "Tz")]
        elif params == ["u64", "Option<String>"]:
            out += [{name: [n, z]} for n in ns[1:] for z in [None, "UTC", "Asia/Tokyo"] + PAYLOADS]
        elif params == ["Vec<String>"]:
            out.append({name: []})
            out += [{name: [p]} for p in PAYLOADS]
            out += [{name: [p, q]} for p in PAYLOADS for q in ("x", "a'b")]
            out.append({name: ["a", "b", "c"]})
        elif params == ["ObjectName", "Vec<String>"]:
            names = [[ident("foo")], [ident("foo"), ident("bar")], [ident("a b", '"')], [ident("Foo", "`")],
                     [ident("INT")], [ident("TIMESTAMP")], [ident("geometry")], [ident("s"), ident("t", '"')],
                     [ident("a\"b", '"')], [ident("é")], [ident("", '"')]]
            mods = [[], ["10"], ["10", "2"], ["a"], ["a b"], ["'x'"], ["a", "10"], ["MAX"], ["007"], ["1.5"], ["a'b"], [""], ["é"], ['"q"']]
            out += [{name: [n, m]} for n in names for m in (mods if n[0]["value"] in ("foo", "geometry") else mods[:3])]
        elif params == ["ArrayElemTypeDef"]:
            out.append({name: "None"})
        # recursive constructors are produced by `wrap`
    return out


def field(n, t):
    return {"field_name": n, "field_type": t}


def coldef(n, t):
    return {"name": n, "data_type": t, "collation": None, "options": []}


def wrappers(base0):
    """unary contexts C[.]: every recursive constructor with the hole in every position"""
    a, b = ident("a"), ident("b")
    ws = [
        ("arr<>", lambda t: {"Array": {"AngleBracket": t}}),
        ("arr[]", lambda t: {"Array": {"SquareBracket": [t, None]}}),
        ("arr[n]", lambda t: {"Array": {"SquareBracket": [t, 3]}}),
        ("arr()", lambda t: {"Array": {"Parenthesis": t}}),
        ("nullable", lambda t: {"Nullable": t}),
        ("lowcard", lambda t: {"LowCardinality": t}),
        ("map-k", lambda t: {"Map": [t, base0]}),
        ("map-v", lambda t: {"Map": [base0, t]}),
        ("struct<anon>", lambda t: {"Struct": [[field(None, t)], "AngleBrackets"]}),
        ("struct<a>", lambda t: {"Struct": [[field(a, t)], "AngleBrackets"]}),
        ("struct<a,b>-last", lambda t: {"Struct": [[field(a, base0), field(b, t)], "AngleBrackets"]}),
        ("struct<a,b>-first", lambda t: {"Struct": [[field(a, t), field(b, base0)], "AngleBrackets"]}),
        ("struct(a)", lambda t: {"Struct": [[field(a, t)], "Parentheses"]}),
        ("struct(a,b)", lambda t: {"Struct": [[field(a, base0), field(b, t)], "Parentheses"]}),
        ("union", lambda t: {"Union": [{"field_name": a, "field_type": t}]}),
        ("union2", lambda t: {"Union": [{"field_name": a, "field_type": t}, {"field_name": b, "field_type": base0}]}),
        ("tuple-anon", lambda t: {"Tuple": [field(None, t)]}),
        ("tuple-a", lambda t: {"Tuple": [field(a, t)]}),
        ("tuple2", lambda t: {"Tuple": [field(None, base0), field(a, t)]}),
        ("nested", lambda t: {"Nested": [coldef(a, t)]}),
        ("nested2", lambda t: {"Nested": [coldef(a, t), coldef(b, base0)]}),
    ]
    return ws


def enumerate_values(sh, rng, thorough):
    leaves = leaf_values(sh, thorough)
    base = [{"Int": None}, {"Varchar": {"IntegerLength": {"length": 1, "unit": None}}}, "DoublePrecision",
            {"Timestamp": [None, "WithTimeZone"]}, {"UnsignedInt": 1}, {"Custom": [[ident("foo")], []]},
            {"Numeric": {"PrecisionAndScale": [1, 0]}}, "Int64", {"Array": "None"}]
    small = base[:3] if thorough else base[:2]
    ws = wrappers(base[0])
    vals = collections.OrderedDict()

    def add(v, tag):
        vals.setdefault(jd(v), (v, tag))

    for v in leaves:
        add(v, "leaf")
    # depth 1 over the whole base, empty lists, special shapes
    for v in base:
        for n, w in ws:
            add(w(v), "depth1")
    add({"Struct": [[], "AngleBrackets"]}, "special")
    add({"Struct": [[], "Parentheses"]}, "special")
    add({"Union": []}, "special")
    add({"Tuple": []}, "special")
    add({"Nested": []}, "special")
    add({"Struct": [[field(None, "DoublePrecision")], "AngleBrackets"]}, "special")
    add({"Struct": [[field(ident("a b", '"'), {"Int": None})], "AngleBrackets"]}, "special")
    add({"Struct": [[field(ident("INT"), {"Int": None})], "AngleBrackets"]}, "special")
    add({"Nested": [{"name": ident("a"), "data_type": {"Int": None}, "collation": None,
                     "options": [{"name": None, "option": "NotNull"}]}]}, "special")
    # depth <= 3 exhaustive over the small base
    level = list(small)
    for depth in (1, 2, 3):
        nxt = []
        for v in level:
            for n, w in ws:
                x = w(v)
                nxt.append(x)
                add(x, "depth%d" % depth)
        level = nxt
        if depth == 2 and not thorough:
            # quick tier: depth 3 over the angle-bracket / wrapper constructors only (the `>>` cases)
            keep = {"arr<>", "arr[]", "arr()", "nullable", "map-v", "struct<a>", "struct<a,b>-last", "struct<a,b>-first", "struct<anon>", "tuple-a"}
            ws = [(n, w) for n, w in ws if n in keep]
    # deeper, sampled
    allw = wrappers(base[0])
    for i in range(3000 if thorough else 400):
        v = rng.choice(leaves if rng.random() < 0.5 else base)
        for _ in range(rng.randrange(4, 7)):
            v = rng.choice(allw)[1](v)
        add(v, "deep")
    return list(vals.values())


# ------------------------------------------------------------------ reference text (parser side)

WORD_RE = re.compile(r"^[A-Za-z_][A-Za-z0-9_]*$")


BS_MODE = [False]


def q_str(s):
    if BS_MODE[0]:
        s = s.replace("\\", "\\\\")
    return "'" + s.replace("'", "''") + "'"


def ref_text_bs(sh, v):
    BS_MODE[0] = True
    try:
        return ref_text(sh, v)
    finally:
        BS_MODE[0] = False


def ref_ident(i):
    q = i["quote_style"]
    if q is None:
        return i["value"] if WORD_RE.match(i["value"]) else None
    close = {"[": "]"}.get(q, q)
    if close in i["value"]:
        return None
    return q + i["value"] + close


def ref_text(sh, v):
    """A text that, by the PARSER-side tables and the hand model, should parse to `v` (dialect
    permitting).  Never uses Display.  None: no such text is known."""
    c = ctor_of(v)
    a = None if isinstance(v, str) else v[c]
    if c in sh.ppath:
        wordsp, fam, uns = sh.ppath[c]
        kw = " ".join(wordsp)
        if fam == "nullary":
            return kw
        if fam in ("optlen", "optlen_u"):
            return kw + ("" if a is None else "(%d)" % a) + (" UNSIGNED" if uns else "")
        if fam == "charlen":
            if a is None:
                return kw
            if a == "Max":
                return kw + "(MAX)"
            il = a["IntegerLength"]
            return kw + "(%d%s)" % (il["length"], "" if il["unit"] is None else " " + il["unit"].upper())
        if fam == "exact":
            if a == "None":
                return kw
            if "Precision" in a:
                return kw + "(%d)" % a["Precision"]
            return kw + "(%d, %d)" % tuple(a["PrecisionAndScale"])
        if fam in ("time", "timetz"):
            p, z = a
            pp = "" if p is None else "(%d)" % p
            if fam == "timetz":
                return kw + pp if z == "Tz" else None
            if z == "Tz":
                return None
            return kw + pp + {"None": "", "WithTimeZone": " WITH TIME ZONE", "WithoutTimeZone": " WITHOUT TIME ZONE"}[z]
        if fam == "strlist":
            return None if not a else kw + "(" + ", ".join(q_str(s) for s in a) + ")"
    if c in ("Time", "Timestamp") and a[1] == "Tz":
        # the TZ spelling is its own keyword on the parser side
        for r in sh.tr["parse_rows"]:
            for al in r.get("alts", []):
                if al["family"] == "timetz" and al["ctor"] == c:
                    return r["keyword"] + ("" if a[0] is None else "(%d)" % a[0])
        return None
    if c == "Datetime64":
        return "DATETIME64(%d%s)" % (a[0], "" if a[1] is None else ", " + q_str(a[1]))
    if c == "FixedString":
        return "FIXEDSTRING(%d)" % a
    if c == "Custom":
        parts = [ref_ident(i) for i in a[0]]
        if not parts or any(p is None for p in parts):
            return None
        ms = []
        for m in a[1]:
            ms.append(m if (WORD_RE.match(m) or re.match(r"^(0|[1-9][0-9]*)$", m)) else q_str(m))
        return ".".join(parts) + ("(" + ", ".join(ms) + ")" if ms else "")
    if c == "Array":
        if a == "None":
            return "ARRAY"
        k = next(iter(a))
        if k == "AngleBracket":
            t = ref_text(sh, a[k])
            return None if t is None else "ARRAY< %s >" % t
        if k == "Parenthesis":
            t = ref_text(sh, a[k])
            return None if t is None else "ARRAY(%s)" % t
        t = ref_text(sh, a[k][0])
        return None if t is None else "%s[%s]" % (t, "" if a[k][1] is None else a[k][1])
    if c in ("Nullable", "LowCardinality"):
        t = ref_text(sh, a)
        return None if t is None else "%s(%s)" % (c.upper(), t)
    if c == "Map":
        k, w = ref_text(sh, a[0]), ref_text(sh, a[1])
        return None if k is None or w is None else "MAP(%s, %s)" % (k, w)
    if c in ("Struct", "Tuple", "Union", "Nested"):
        fields = a[0] if c == "Struct" else a
        parts = []
        for f in fields:
            if c == "Nested":
                if f["collation"] is not None or f["options"]:
                    return None
                n, t = f["name"], f["data_type"]
            else:
                n, t = f["field_name"], f["field_type"]
            tt = ref_text(sh, t)
            nn = "" if n is None else ref_ident(n)
            if tt is None or nn is None:
                return None
            parts.append((nn + " " if nn else "") + tt)
        if c == "Struct":
            if not parts:
                return "STRUCT"
            return "STRUCT(%s)" % ", ".join(parts) if a[1] == "Parentheses" else "STRUCT< %s >" % ", ".join(parts)
        if not parts:
            return None
        return "%s(%s)" % (c.upper(), ", ".join(parts))
    return None


# ------------------------------------------------------------------ known-finding classes

def strings_of(v, acc):
    """(kind, payload) of every string the value prints: 'label' (ENUM/SET), 'tz' (DateTime64),
    'modifier' (custom type modifier), 'ident' (quote, value)"""
    if isinstance(v, dict):
        if set(v) == {"value", "quote_style"}:
            acc.append(("ident", (v["quote_style"], v["value"])))
            return acc
        for k, x in v.items():
            if k in ("Enum", "Set") and isinstance(x, list):
                acc += [("label", s) for s in x]
            elif k == "Datetime64":
                if x[1] is not None:
                    acc.append(("tz", x[1]))
            elif k == "Custom":
                strings_of(x[0], acc)
                acc += [("modifier", s) for s in x[1]]
            else:
                strings_of(x, acc)
    elif isinstance(v, list):
        for x in v:
            strings_of(x, acc)
    return acc


def single_token_modifier(m):
    return bool(WORD_RE.match(m) or re.match(r"^[0-9]+(\.[0-9]+)?$", m))


def trail(v):
    """number of `>` the printed value ends with"""
    if isinstance(v, dict):
        if "Array" in v and isinstance(v["Array"], dict) and "AngleBracket" in v["Array"]:
            return 1 + trail(v["Array"]["AngleBracket"])
        if "Struct" in v and v["Struct"][1] == "AngleBrackets" and v["Struct"][0]:
            return 1 + trail(v["Struct"][0][-1]["field_type"])
    return 0


def children(v):
    """(child, followed_by_comma, followed_by_lbracket)"""
    if not isinstance(v, dict):
        return []
    c = ctor_of(v)
    a = v[c]
    if c == "Array" and isinstance(a, dict):
        k = next(iter(a))
        return [(a[k][0], False, True)] if k == "SquareBracket" else [(a[k], False, False)]
    if c in ("Nullable", "LowCardinality"):
        return [(a, False, False)]
    if c == "Map":
        return [(a[0], True, False), (a[1], False, False)]
    if c in ("Struct", "Tuple", "Union"):
        fs = a[0] if c == "Struct" else a
        return [(f["field_type"], i + 1 < len(fs), False) for i, f in enumerate(fs)]
    if c == "Nested":
        return [(f["data_type"], i + 1 < len(a), False) for i, f in enumerate(a)]
    return []


def angle_classes(v, d, comma=False, lbracket=False, acc=None):
    """the three defects of the `>>` bookkeeping, decided on the value:
    even-run-then-[ : a type whose printed text ends in an even number (>= 2) of `>` is followed by `[`;
    struct-even-run-then-comma : an angle STRUCT whose own closing `>` is the second half of a `>>` is followed by `,`;
    pg-triple-gt : PostgreSQL lexes `>>>` as one custom operator token"""
    acc = set() if acc is None else acc
    t = trail(v)
    if lbracket and t >= 2 and t % 2 == 0:
        acc.add("angle-close:even-run-then-bracket")
    if comma and t >= 2 and t % 2 == 0 and isinstance(v, dict) and "Struct" in v:
        acc.add("angle-close:struct-even-run-then-comma")
    if d == "postgresql" and t >= 3:
        acc.add("angle-close:pg-triple-gt")
    for ch, cm, lb in children(v):
        angle_classes(ch, d, cm, lb, acc)
    return acc


def known_classes(v, d):
    """Keys of the known-finding classes the value falls in under dialect d (decidable on the value)."""
    out = list(angle_classes(v, d))
    for kind, p in strings_of(v, []):
        if kind == "label":
            if "''" in p:
                out.append("label:doubled-quote")
            if "\\'" in p:
                out.append("label:backslash-quote")
            if d in BACKSLASH_DIALECTS and "\\" in p:
                out.append("label:backslash-dialect")
            if d == "bigquery" and p.startswith("'"):
                out.append("label:triple-leading-quote")
        elif kind == "tz":
            if "'" in p:
                out.append("datetime64-tz:unescaped-quote")
            if d in BACKSLASH_DIALECTS and "\\" in p:
                out.append("datetime64-tz:backslash-dialect")
        elif kind == "modifier":
            if not single_token_modifier(p):
                out.append("custom-modifier:not-a-token")
        elif kind == "ident":
            q, val = p
            if q is not None:
                close = {"[": "]"}.get(q, q)
                if close in val:
                    out.append("ident:quote-in-payload")
                if d == "redshift" and (val == "" or not (val[0].isalpha() or val[0] == "_")):
                    out.append("ident:redshift-needs-identifier-start")
    return sorted(set(out))


# ------------------------------------------------------------------ the check

def check(run):
    thorough = run.tier == "thorough"
    run.cov["rule"] = (
        "AST-first: DataType values built from serde JSON — every constructor x every combination of its optional "
        "parameters over {absent, 0, 1, 2^64-1} x time-zone forms x signedness x units, label / time-zone / modifier "
        "strings from the C06 payload set {a, a'b, a\"b, a\\b, é, empty}, every recursive constructor with the hole in "
        "every position nested to depth 3 exhaustively over a small base (quick: depth 3 over the angle/paren wrappers "
        "only) and to depth 4-7 sampled — each printed with Display and parsed stand-alone, inside CAST(x AS ..) and "
        "inside CREATE TABLE t (c ..) under all 13 dialects; plus every data type value occurring in the parsed "
        "test-suite corpus. An evaluation = one (value, dialect, context); non-trivial = the value is certified parser "
        "form for that dialect (its reference text, built from the parser-side table, parses to it) or was produced by "
        "the parser, i.e. the round-trip obligation applies")
    run.cov["checker_cmd"] = "make -C coq Properties/C18.vo (coqc 8.16.1, full .vo build) + coqc on generated case files"
    run.cov["trusted_base"] = TRUSTED_BASE_COMMON[:1] + [
        "translator harness/dtx/src/translate.rs (syn 2): family tables from the regular Display arms and the regular arms of the keyword match of parse_data_type_helper; irregular arms and mirrored helper functions pinned by token-stream hash (lib/props/C18_pinned.json)",
        "hand model theories/DataTypeRT.v of the irregular arms (arrays incl. the >> bookkeeping, STRUCT, UNION, ClickHouse wrappers, ENUM/SET, DateTime64, FixedString, custom names) and of the parameter helpers — validated on every run by the token/parse correspondence, not proved equal to the Rust code",
        "token level: the tokenizer is outside the model (C06/C09); tokens of the printed text are taken from the implementation's tokenizer; string payloads in the C06 known classes are excluded",
        "lib/props/C18.py (value enumeration, reference texts, encoding of values/tokens as Coq terms) and harness/dtx/src/bin/dtx_drive.rs; serde derives of the AST",
        "no axioms: every property theorem is followed by Print Assumptions and must report 'Closed under the global context'",
    ]
    tr = gen_tables(run)
    sh = Shapes(tr)
    pinned_report = check_pins(run, tr)
    run.notes["translator"] = {"source_root": SRC_ROOT, "ctors": len(tr["ctors"]), "print_rows": len(tr["print_rows"]),
                               "parse_rows": len(tr["parse_rows"]), "irregular_print": sorted(tr["irregular_print"]),
                               "irregular_parse": [r["key"] for r in tr["parse_rows"] if "irregular" in r],
                               "obligations": tr["obligations"][:20], "pins": pinned_report}

    pr = prove("C18")
    run.cov["obligations"] = pr["statements"]
    run.cov["discharged"] = pr["statements"] if pr["ok"] else 0
    run.notes["print_assumptions"] = {"closed_under_global_context": pr["closed"], "axioms": pr["axioms"]}
    run.notes["cone"] = pr["cone"]
    facts, facts_out = (None, "")
    if os.path.exists(os.path.join(GEN, "DataTypeTables.vo")):
        facts, facts_out = model_facts()
    run.notes["model_side_conditions"] = facts

    if thorough and pr["make_ok"]:
        p = subprocess.run(["timeout", "1200", "coqchk", "-silent", "-o", "-Q", "theories", "SqlV", "-Q", "gen", "SqlVGen",
                            "-Q", "Properties", "SqlVProps", "SqlVProps.C18"], cwd=COQ,
                           stdout=subprocess.PIPE, stderr=subprocess.STDOUT, text=True)
        summary = p.stdout[p.stdout.find("CONTEXT SUMMARY"):] if "CONTEXT SUMMARY" in p.stdout else p.stdout[-1500:]
        clean = p.returncode == 0 and "Axioms: <none>" in re.sub(r"\s+", " ", summary)
        run.notes["coqchk"] = {"exit": p.returncode, "clean": clean, "summary": re.sub(r"\s+", " ", summary)[:500]}
        log("[coq] coqchk SqlVProps.C18 -> %d, clean=%s" % (p.returncode, clean))
        if not clean:
            run.violation({"what": "coqchk does not accept the compiled closure of Properties/C18.vo as axiom-free",
                           "unchecked": "coqchk -o SqlVProps.C18", "tool_output": p.stdout[-2000:]}, no_input=True)

    D = dynamic(run, tr, sh, thorough)
    corr = None
    if facts is not None:
        corr = correspondence(run, tr, sh, D, thorough)
    decide(run, tr, sh, pr, facts, facts_out, D, corr, pinned_report)


def check_pins(run, tr):
    cur = {"tail": tr["tail_hash"]}
    cur.update({"print:" + c: x["hash"] for c, x in tr["irregular_print"].items()})
    cur.update({r["key"]: r["irregular"] for r in tr["parse_rows"] if "irregular" in r})
    cur.update(tr["helpers"])
    try:
        pinned = json.load(open(PINNED_FILE))
    except FileNotFoundError:
        pinned = {}
    changed = sorted(k for k in cur if pinned.get(k) != cur[k])
    missing = sorted(k for k in pinned if k not in cur)
    return {"pinned": len(pinned), "current": len(cur), "changed": changed, "missing": missing, "_cur": cur}


def model_facts():
    term = ("(family_consistent dt_tables, bad_print_rows dt_tables, bad_parse_rows dt_tables, length dt_obligations, "
            "(irregular_ok dt_tables, kws_disjoint dt_tables, bad_irregular dt_tables))")
    rc, out = coq_eval(HEADER, term)
    if rc != 0:
        return None, out
    from props.C19 import parse_coq_value, nstr
    v = parse_coq_value(out)
    return {"family_consistent": v[0] == "true", "bad_print_rows": [nstr(x) for x in v[1]],
            "bad_parse_rows": [nstr(x) for x in v[2]], "obligations": v[3],
            "irregular_ok": v[4][0] == "true", "kws_disjoint": v[4][1] == "true",
            "bad_irregular": ["%s/%s" % (nstr(x[0]), nstr(x[1])) for x in v[4][2]]}, out


def dynamic(run, tr, sh, thorough):
    D = {"viol": [], "known": collections.defaultdict(list), "machinery": []}
    vals = enumerate_values(sh, run.rng, thorough)
    # values the parser produced for the texts of the test-suite corpus
    tcases = [{"sql": e["sql"], "dialects": e["dialects"]} for e in corpus() if re.search(r"create|cast|::|alter|declare|function|\bas\b", e["sql"], re.I)]
    tres = _bx(run_bin_parallel, "dtx_drive", ["types"], tcases, pkg=PKG)
    corpus_types = {}
    for c, r in zip(tcases, tres):
        for x in r["results"]:
            for t in x["types"]:
                corpus_types.setdefault(jd(t), {"v": t, "dialects": set(), "sql": c["sql"]})["dialects"].add(x["dialect"])
    cases, meta = [], []
    for v, tag in vals:
        cases.append({"v": v, "dialects": DIALECTS, "ref": ref_text(sh, v), "ref_bs": ref_text_bs(sh, v), "bs_dialects": sorted(BACKSLASH_DIALECTS)})
        meta.append((tag, None))
    known_json = {jd(v) for v, _ in vals}
    for k, e in corpus_types.items():
        cases.append({"v": e["v"], "dialects": sorted(e["dialects"], key=DIALECTS.index), "ref": ref_text(sh, e["v"]),
                      "ref_bs": ref_text_bs(sh, e["v"]), "bs_dialects": sorted(BACKSLASH_DIALECTS)})
        meta.append(("corpus", e))
    res = _bx(run_bin_parallel, "dtx_drive", ["dt"], cases, pkg=PKG, timeout=1500)
    stats = collections.Counter()
    evals = nontrivial = 0
    D["obs"] = []
    by_ctor_viol = collections.defaultdict(int)
    for c, (tag, ce), r in zip(cases, meta, res):
        v = c["v"]
        if "error" in r:
            D["machinery"].append({"value": v, "problem": r["error"]})
            continue
        if "display_panic" in r:
            D["viol"].append({"kind": "display-panic", "value": v, "dialect": None, "context": "Display", "observed": r["display_panic"], "known": []})
            continue
        D["obs"].append((v, tag, c["ref"], r))
        for g in r["groups"]:
            for d in g["dialects"]:
                certified = bool(g.get("cert")) or tag == "corpus"
                kc = known_classes(v, d)
                for ctx in ("sa", "cast", "col"):
                    o = g[ctx]
                    if v == "Unspecified" and not (ctx == "col" and d == "sqlite"):
                        continue  # "no type given": exists only in SQLite column definitions
                    evals += 1
                    if certified:
                        nontrivial += 1
                    if o == "same":
                        stats["same"] += 1
                        continue
                    what = None
                    if isinstance(o, dict) and "panic" in o:
                        what = "panic"
                    elif isinstance(o, dict) and "ok" in o:
                        nontrivial += 0 if certified else 1
                        if o["fix"] is not True:
                            what = "parsed-value-not-a-fixpoint"
                            kc = sorted(set(kc) | set(known_classes(o["ok"], d)))
                        elif certified:
                            what = "certified-value-changed"
                        else:
                            stats["out-of-scope (parses to another value that round-trips)"] += 1
                    elif certified:
                        what = "certified-value-rejected"
                    else:
                        stats["out-of-scope (rejected)"] += 1
                    if what:
                        stats[what] += 1
                        D["viol"].append({"kind": what, "value": v, "dialect": d, "context": ctx, "text": r["text"], "ref_text": c["ref"],
                                          "observed": o, "known": kc, "tag": tag,
                                          "corpus_sql": ce["sql"] if ce else None})
    # support matrix: which dialects produce (certify) values of each constructor.  "A dialect that supports that
    # type" is read off the reviewed tree (lib/props/C18_support.json); a pair that is lost -- the reference spelling
    # of the constructor no longer parses to it under a dialect that used to -- is a regression of the property for
    # that dialect, not a change of scope.
    support = collections.defaultdict(set)
    example = {}
    for v, tag, ref, r in D["obs"]:
        for g in r["groups"]:
            for d in g["dialects"]:
                if g.get("cert") or tag == "corpus":
                    support[ctor_of(v)].add(d)
                else:
                    example.setdefault((ctor_of(v), d), (v, ref, r["text"], g))
    try:
        pinned_support = json.load(open(SUPPORT_FILE))
    except FileNotFoundError:
        pinned_support = {}
    lost = [(c, d) for c, ds in sorted(pinned_support.items()) for d in ds if d not in support.get(c, set())]
    for c, d in lost:
        if (c, d) in example:
            v, ref, text, g = example[(c, d)]
            D["viol"].append({"kind": "support-lost", "value": v, "dialect": d, "context": "sa", "text": text, "ref_text": ref,
                              "observed": g["sa"], "known": [], "tag": "support-matrix", "corpus_sql": None})
    # the same at value level for the exhaustively enumerated kinds (leaf .. depth2): which (value, dialect) pairs certify.
    # A pair that is lost means: the reference spelling of that very value no longer parses to it there (e.g. `INT[3][]`
    # read back with both dimensions sized) -- a regression, not a change of scope.
    import hashlib
    certified_now, example_v = {}, {}
    for v, tag, ref, r in D["obs"]:
        if tag not in ("leaf", "depth1", "special", "depth2"):
            continue
        h = hashlib.sha1(jd(v).encode()).hexdigest()[:12]
        mask = 0
        for g in r["groups"]:
            for d in g["dialects"]:
                if g.get("cert"):
                    mask |= 1 << DIALECTS.index(d)
                else:
                    example_v[(h, d)] = (v, ref, r["text"], g)
        certified_now[h] = mask
    try:
        pinned_cert = json.load(open(CERT_FILE))
    except FileNotFoundError:
        pinned_cert = {}
    lost_values = []
    for h, mask in pinned_cert.items():
        now = certified_now.get(h)
        if now is None:
            continue
        for i, d in enumerate(DIALECTS):
            if mask >> i & 1 and not now >> i & 1 and (h, d) in example_v:
                lost_values.append((h, d))
    for h, d in lost_values[:20]:
        v, ref, text, g = example_v[(h, d)]
        if (ctor_of(v), d) not in lost:
            D["viol"].append({"kind": "support-lost", "value": v, "dialect": d, "context": "sa", "text": text, "ref_text": ref,
                              "observed": g["sa"], "known": [], "tag": "certified-values", "corpus_sql": None})
    run.notes["certified_values"] = {"values": len(certified_now), "pinned": len(pinned_cert), "lost_pairs": len(lost_values)}
    if os.environ.get("C18_WRITE_SUPPORT") == "1":
        json.dump(certified_now, open(CERT_FILE, "w"), indent=0, sort_keys=True)
    D["support"] = {c: sorted(ds, key=DIALECTS.index) for c, ds in sorted(support.items())}
    if os.environ.get("C18_WRITE_SUPPORT") == "1":   # maintenance only: re-pin after a reviewed change
        json.dump(D["support"], open(SUPPORT_FILE, "w"), indent=0, sort_keys=True)
    D["support_lost"] = lost
    run.notes["support_matrix"] = {"constructors": len(support), "pairs": sum(len(v) for v in support.values()), "pinned_pairs": sum(len(v) for v in pinned_support.values()),
                                   "lost": ["%s/%s" % x for x in lost], "gained": ["%s/%s" % (c, d) for c, ds in sorted(support.items()) for d in ds if d not in pinned_support.get(c, [])]}
    run.add_eval(evals, nontrivial)
    run.notes["enumeration"] = {"values": len(vals), "by_kind": dict(collections.Counter(t for _, t in vals)),
                                "corpus_type_values": len(corpus_types), "corpus_texts_scanned": len(tcases),
                                "outcomes": dict(stats)}
    if D["obs"]:
        v, tag, ref, r = D["obs"][min(len(D["obs"]) - 1, 700)]
        run.sample({"value": v, "printed": r["text"], "reference_text": ref,
                    "groups": [{k: g[k] for k in ("dialects", "sa", "cast", "col", "cert") if k in g} for g in r["groups"]][:3]})
    return D


# ------------------------------------------------------------------ Coq encodings

class NotInFragment(Exception):
    pass


def cN(n):
    return "%d" % n


def c_optN(n):
    return "None" if n is None else "(Some %d)" % n


def c_ident(i):
    q = i["quote_style"]
    return "(Id %s %s)" % ("None" if q is None else "(Some %d)" % ord(q), coq_str(i["value"]))


def c_mod(m):
    if re.match(r"^(0|[1-9][0-9]*)$", m) and int(m) <= U64 * 4:
        return "TNum %s" % m
    if WORD_RE.match(m):
        return "TWord %s" % coq_str(m)
    if len(m) >= 2 and m[0] in '"`[' and m[-1] == {"[": "]"}.get(m[0], m[0]):
        return "TQWord %d %s" % (ord(m[0]), coq_str(m[1:-1]))   # a quoted word keeps its quotes as a modifier
    if re.match(r"^[0-9]", m):
        raise NotInFragment("numeric modifier that is not a canonical numeral")
    return "TStr %s" % coq_str(m)


def c_dt(sh, v):
    c = ctor_of(v)
    a = None if isinstance(v, str) else v[c]
    if c == "Unspecified":
        return "DUnspecified"
    row = sh.pfam.get(c)
    if row is not None or c in sh.ppath:
        fam = row["family"] if row else sh.ppath[c][1]
        if fam == "nullary":
            return "(DNullary %s)" % coq_str(c)
        if fam in ("optlen", "optlen_u"):
            return "(DOptLen %s %s)" % (coq_str(c), c_optN(a))
        if fam == "charlen":
            if a is None:
                l = "None"
            elif a == "Max":
                l = "(Some CLMax)"
            else:
                il = a["IntegerLength"]
                u = {"Characters": "(Some UChars)", "Octets": "(Some UOctets)", None: "None"}[il["unit"]]
                l = "(Some (CLInt %d %s))" % (il["length"], u)
            return "(DCharLen %s %s)" % (coq_str(c), l)
        if fam == "exact":
            if a == "None":
                e = "ENone"
            elif "Precision" in a:
                e = "(EPrec %d)" % a["Precision"]
            else:
                e = "(EPrecScale %d %d)" % tuple(a["PrecisionAndScale"])
            return "(DExact %s %s)" % (coq_str(c), e)
        if fam in ("time", "timetz"):
            z = {"None": "TzNone", "WithTimeZone": "TzWith", "WithoutTimeZone": "TzWithout", "Tz": "TzTz"}[a[1]]
            return "(DTime %s %s %s)" % (coq_str(c), c_optN(a[0]), z)
        if fam == "strlist":
            return "(DStrList %s %s)" % (coq_str(c), coq_strs(a))
    if c in ("Enum", "Set"):
        return "(DStrList %s %s)" % (coq_str(c), coq_strs(a))
    if c == "Datetime64":
        return "(DDatetime64 %d %s)" % (a[0], "None" if a[1] is None else "(Some %s)" % coq_str(a[1]))
    if c == "FixedString":
        return "(DFixedString %d)" % a
    if c == "Custom":
        return "(DCustom [%s] [%s])" % ("; ".join(c_ident(i) for i in a[0]), "; ".join(c_mod(m) for m in a[1]))
    if c == "Array":
        if a == "None":
            return "DArrayNone"
        k = next(iter(a))
        if k == "AngleBracket":
            return "(DArrayAngle %s)" % c_dt(sh, a[k])
        if k == "Parenthesis":
            return "(DArrayParen %s)" % c_dt(sh, a[k])
        return "(DArraySquare %s %s)" % (c_dt(sh, a[k][0]), c_optN(a[k][1]))
    if c == "Nullable":
        return "(DNullable %s)" % c_dt(sh, a)
    if c == "LowCardinality":
        return "(DLowCard %s)" % c_dt(sh, a)
    if c == "Map":
        return "(DMap %s %s)" % (c_dt(sh, a[0]), c_dt(sh, a[1]))
    if c in ("Struct", "Tuple"):
        fs = a[0] if c == "Struct" else a
        body = "[%s]" % "; ".join("(%s, %s)" % ("None" if f["field_name"] is None else "Some " + c_ident(f["field_name"]), c_dt(sh, f["field_type"])) for f in fs)
        if c == "Tuple":
            return "(DTuple %s)" % body
        return "(DStruct %s %s)" % (body, "BParen" if a[1] == "Parentheses" else "BAngle")
    if c == "Union":
        return "(DUnion [%s])" % "; ".join("(%s, %s)" % (c_ident(f["field_name"]), c_dt(sh, f["field_type"])) for f in a)
    if c == "Nested":
        for f in a:
            if f["collation"] is not None or f["options"]:
                raise NotInFragment("column with options")
        return "(DNested [%s])" % "; ".join("(%s, %s)" % (c_ident(f["name"]), c_dt(sh, f["data_type"])) for f in a)
    raise NotInFragment("constructor %s has no model" % c)


PUNCT = {"(": "TLParen", ")": "TRParen", ",": "TComma", "<": "TLt", ">": "TGt", ">>": "TShr", "[": "TLBracket", "]": "TRBracket",
         ".": "TPeriod", ":": "TColon"}


def c_tok(t, others):
    k = t[0]
    if k == "w":
        return "TWord %s" % coq_str(t[1]) if t[2] is None else "TQWord %d %s" % (ord(t[2]), coq_str(t[1]))
    if k == "n":
        if re.match(r"^(0|[1-9][0-9]*)$", t[1]):
            return "TNum %s" % t[1]
        return "TOther %d" % others.setdefault("n:" + t[1], len(others) + 1)
    if k == "s":
        return "TStr %s" % coq_str(t[1])
    if k == "p":
        return PUNCT[t[1]]
    return "TOther %d" % others.setdefault("o:" + t[1], len(others) + 1)


CASE_DEFS = r"""
Inductive outcome := OSame | OOk (t : dt) | OLeft | OErr.
(* one value, its printed tokens under a group of dialects, the stand-alone outcome per dialect *)
Definition ccase := (dt * bool * list (list tok * bool * list (list N * outcome)))%type.
Definition out_ok (v : dt) (ts : list tok) (dr : list N * outcome) : bool :=
  match parse_dt dt_tables (fst dr) ts, snd dr with
  | POk t _ [], OSame => dt_eqb t v
  | POk t _ [], OOk t' => dt_eqb t t'
  | POk _ _ (_ :: _), OLeft => true
  | PErr, OErr => true
  | _, _ => false
  end.
Definition check_case (c : ccase) : bool :=
  match c with
  | (v, chk_print, groups) =>
      forallb (fun g => match g with (ts, chk, drs) =>
                        (negb (chk_print && chk) || toks_eqb (glue (print_dt dt_tables v)) ts)
                        && forallb (out_ok v ts) drs end) groups
  end.
"""


def tokens_in_fragment(toks):
    """token streams the model parser is meant to decide: no foreign token kinds in positions
    where the implementation accepts more than the model (string-like tokens other than '..')"""
    return isinstance(toks, list)


def correspondence(run, tr, sh, D, thorough):
    others = {}
    terms, meta = [], []
    skipped = collections.Counter()
    budget = {"deep": 2500 if thorough else 300, "depth3": 6000 if thorough else 1200}
    used = collections.Counter()
    n_print = 0
    for v, tag, ref, r in D["obs"]:
        if tag in budget:
            used[tag] += 1
            if used[tag] > budget[tag]:
                skipped["over budget: " + tag] += 1
                continue
        try:
            vt = c_dt(sh, v)
        except NotInFragment as e:
            skipped[str(e)] += 1
            continue
        groups = []
        chk_print = True
        ok = True
        # strings whose lexing is not the identity on payloads are below the token level (C06)
        strs = strings_of(v, [])
        for kind, p in strs:
            if kind in ("label", "tz") and ("'" in p or "\\" in p):
                chk_print = False
            if kind == "modifier" and not single_token_modifier(p):
                chk_print = False
            if kind == "modifier" and re.match(r"^[0-9]", p) and not re.match(r"^(0|[1-9][0-9]*)$", p):
                ok = False
            if kind == "ident":
                q, val = p
                if q is None and not WORD_RE.match(val):
                    chk_print = False
                if q is not None and ({"[": "]"}.get(q, q) in val):
                    chk_print = False
        if not ok:
            skipped["modifier outside the token model"] += 1
            continue
        for g in r["groups"]:
            if not isinstance(g["toks"], list):
                skipped["printed text does not lex"] += 1
                continue
            if any(t[0] == "o" and "QuotedString" in t[1] for t in g["toks"]):
                # a "..." token that this dialect lexes as a string: identifiers given as strings are outside the model
                skipped["double-quoted string token"] += 1
                continue
            try:
                ts = "[%s]" % "; ".join(c_tok(t, others) for t in g["toks"])
                drs = []
                for d in g["dialects"]:
                    o = g["sa"]
                    if o == "same":
                        oc = "OSame"
                    elif "ok" in o:
                        oc = "OOk %s" % c_dt(sh, o["ok"])
                    elif "left" in o:
                        oc = "OLeft"
                    elif "err" in o:
                        oc = "OErr"
                    else:
                        raise NotInFragment("panic/extra outcome")
                    # model fragments: BigQuery splits dotted identifiers, identifiers given as strings
                    drs.append("(%s, %s)" % (coq_str(d), oc))
                # dialect-specific lexing of quoted identifiers makes the printed tokens differ per group;
                # the print check compares with the group whose tokens keep quoted words as words
                # a token kind outside the model means this dialect lexes the text differently (e.g. `>>>`
                # as one operator in PostgreSQL): not a matter for the token-level printer
                lex_regular = not any(t[0] == "o" for t in g["toks"])
                groups.append("(%s, %s, [%s])" % (ts, coq_bool(lex_regular), "; ".join(drs)))
            except NotInFragment as e:
                skipped[str(e)] += 1
        if groups:
            # the printer model is compared on every group: a dialect that lexes the text differently
            # (e.g. `[` opening a quoted identifier in MsSql/SQLite/Redshift, `"` a string in MySQL/BigQuery...)
            # is not a printer matter, so print-checking is limited to values without brackets/quotes there
            pc = chk_print and not any(k == "ident" and p[0] is not None for k, p in strs) and "[" not in r["text"]
            n_print += 1 if pc else 0
            terms.append("(%s, %s, [%s])" % (vt, coq_bool(pc), ";\n     ".join(groups)))
            meta.append((v, tag, r["text"]))
    header = HEADER + CASE_DEFS
    try:
        bad = run_coq_cases("c18", header, terms, "check_case", shard_size=250, per_case_type="ccase")
    except RuntimeError as e:
        run.violation({"what": "model evaluation failed", "unchecked": "correspondence model printer/parser vs Display/parse_data_type",
                       "tool_output": str(e)[-2500:]}, no_input=True)
        return None
    run.notes["correspondence"] = {"values": len(terms), "disagreements": len(bad), "skipped": dict(skipped),
                                   "print_checked": n_print}
    return [meta[i] for i in bad]


# ------------------------------------------------------------------ decision

def decide(run, tr, sh, pr, facts, facts_out, D, corr, pins):
    known = {k: w for k, w in known_findings("C18")}
    static_ok = pr["ok"] and facts is not None and facts["family_consistent"] and facts["obligations"] == 0
    bad_ctors = set((facts or {}).get("bad_print_rows", [])) | set((facts or {}).get("bad_parse_rows", []))

    # group the implementation failures: known classes -> KNOWN-FINDING, the rest -> violations
    unknown = []
    hits = collections.defaultdict(list)
    for f in D["viol"]:
        ks = [k for k in f["known"] if k in known]
        if ks and f["kind"] != "panic":
            for k in ks:
                hits[k].append(f)
        else:
            unknown.append(f)
    for k, fs in sorted(hits.items()):
        f = fs[0]
        run.known(k, "%d (value, dialect, context) cases, e.g. %s -> `%s` under %s/%s" % (len(fs), jd(f["value"])[:120], f.get("text"), f["dialect"], f["context"]))
    run.notes["known_finding_cases"] = {k: len(v) for k, v in hits.items()}

    def rank(f):
        c = ctor_of(f["value"])
        return (0 if c in bad_ctors else 1, len(jd(f["value"])), DIALECTS.index(f["dialect"]) if f["dialect"] in DIALECTS else 0)
    seen = set()
    CALLS = {"sa": "Parser::parse_data_type", "cast": "SELECT CAST(x AS <type>)", "col": "CREATE TABLE t (c <type>)", "Display": "DataType::to_string"}
    for f in sorted(unknown, key=rank):
        key = (ctor_of(f["value"]), f["kind"])
        if key in seen or len(seen) >= MAX_REPORTS:
            continue
        seen.add(key)
        same_value = [g for g in unknown if jd(g["value"]) == jd(f["value"]) and g["kind"] == f["kind"]]
        run.violation({
            "what": {"certified-value-changed": "a data type value the parser produces prints to SQL that parses back to a different value",
                     "certified-value-rejected": "a data type value the parser produces prints to SQL that does not parse as a data type in this context",
                     "parsed-value-not-a-fixpoint": "the value obtained by parsing a printed data type does not itself survive print -> parse",
                     "support-lost": "the reference spelling of a data type no longer parses to that type under a dialect that supported it: the printed value does not parse back to itself there",
                     "panic": "printing or parsing a data type panicked", "display-panic": "Display of a data type value panicked"}[f["kind"]],
            "call": CALLS[f["context"]],
            "fails_in_contexts": sorted({CALLS[g["context"]] for g in same_value}),
            "fails_under_dialects": sorted({g["dialect"] for g in same_value if g["dialect"]}),
            "dialect": f["dialect"], "value": f["value"], "input": f.get("text"), "reference_text": f.get("ref_text"),
            "corpus_sql": f.get("corpus_sql"), "expected": "the identical value", "observed": f["observed"],
            "constructor": ctor_of(f["value"]), "same_failure_cases": sum(1 for g in unknown if (ctor_of(g["value"]), g["kind"]) == key)})
    run.notes["implementation_failures"] = {"unknown": len(unknown), "known": sum(len(v) for v in hits.values())}

    if not static_ok:
        if facts is None:
            run.violation({"what": "the generated family tables do not compile, so no theorem of C18 could be re-checked",
                           "unchecked": failing_coq_item(pr["output"]), "tool_output": facts_out[-1500:]}, no_input=True)
        else:
            if not facts["family_consistent"]:
                hit = [f for f in unknown if ctor_of(f["value"]) in bad_ctors]
                if (not facts["irregular_ok"] or not facts["kws_disjoint"]) and not unknown:
                    run.violation({"what": "the hand-modelled arms are not where the model expects them: for (dialect/keyword) %s the keyword match "
                                           "reaches another arm (a dialect gate was added, removed or reordered), or a family keyword became a "
                                           "keyword continuation" % facts["bad_irregular"],
                                   "unchecked": "c18_family_consistent: irregular_ok / kws_disjoint (C18_angle_bookkeeping, C18_round_trip_partial)",
                                   "dialect_keyword": facts["bad_irregular"]}, no_input=True)
                if not hit and bad_ctors:
                    run.violation({"what": "the Display spelling and the parser arm of constructors %s no longer agree (family_consistent fails), "
                                           "but no enumerated value of these constructors fails the round trip: the constructor is no longer "
                                           "producible by the parser or its spelling now belongs to a neighbour" % sorted(bad_ctors),
                                   "unchecked": "c18_family_consistent (C18_leaf_round_trip, C18_round_trip)", "constructors": sorted(bad_ctors)}, no_input=True)
            if facts["obligations"]:
                run.violation({"what": "the translator could not locate part of the printer/parser", "unchecked": "c18_no_obligations",
                               "obligations": tr["obligations"][:20]}, no_input=True)
            if not pr["ok"] and not run.violations:
                run.violation({"what": "a proof obligation of C18 no longer checks", "unchecked": failing_coq_item(pr["output"]),
                               "forbidden": pr["forbidden"], "axioms": pr["axioms"]}, no_input=True)
    if corr:
        run.notes["correspondence_disagreements"] = [{"value": v, "tag": t, "text": x} for v, t, x in corr[:15]]
        explained = {jd(f["value"]) for f in unknown}
        rest = [c for c in corr if jd(c[0]) not in explained]
        if rest:
            run.violation({"what": "the model printer/parser (family tables + hand model) and the implementation disagree",
                           "unchecked": "correspondence print_dt/parse_dt vs Display/parse_data_type",
                           "pinned_items_changed": pins["changed"], "cases": [{"value": v, "text": x} for v, t, x in rest[:8]]}, no_input=True)
    if (pins["changed"] or pins["missing"]) and pins["pinned"]:
        run.notes["pinned_items_changed"] = {"changed": pins["changed"], "missing": pins["missing"],
                                            "revalidated_by_correspondence": corr is not None and not corr}
    if D["machinery"]:
        run.notes["machinery_problems"] = D["machinery"][:10]
        if len(D["machinery"]) > 20:
            run.violation({"what": "many enumerated values could not be built", "unchecked": "value enumeration", "problems": D["machinery"][:10]}, no_input=True)


def replay(path):
    r = json.load(open(path))
    print(json.dumps({k: v for k, v in r.items() if k not in ("observed",)}, indent=1, ensure_ascii=False)[:3000])
    if "value" in r and r.get("dialect"):
        tr = extract()
        out = _bx(run_bin, "dtx_drive", ["dt"], [{"v": r["value"], "dialects": [r["dialect"]], "ref": r.get("reference_text")}], pkg=PKG)[0]
        print("implementation now:", json.dumps(out, ensure_ascii=False)[:2000])
    return 0
