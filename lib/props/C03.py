"""C03 — nesting depth is bounded by the recursion limit, never by the stack.

Static side: the call graph of src/parser + src/dialect is re-extracted (harness/graphx
c03_callgraph), written to coq/gen/CallGraph.v together with a rank certificate, and
Properties/C03.v re-checks `check_cert` in the kernel.  Dynamic side: nesting ladders, sibling
runs and parser re-use, every parse in a child process (c03_nest)."""
import hashlib
import json
import os
import resource
import shutil
import subprocess
import time
from concurrent.futures import ThreadPoolExecutor

from common import *

HEADER = "Require Import SqlV.Base SqlV.Depth.\n"
DEFAULT_L = 50
SLOW_FLAT = ("flat_union", "flat_intersect_mix", "flat_statements")
EXC_FILE = os.path.join(VERIF, "lib", "props", "C03_exceptions.json")
ALL_DIALECTS = ["generic", "ansi", "bigquery", "clickhouse", "databricks", "duckdb", "hive", "mssql",
                "mysql", "postgresql", "redshift", "snowflake", "sqlite"]


# ------------------------------------------------------------------ harness
def harness_bin():
    """Directory of the graphx binaries built against REPO (a scratch build when VERIF_REPO is
    not /repo: used by the mutation self-tests)."""
    if os.path.realpath(REPO) == "/repo":
        build_harness("graphx")
        return os.path.dirname(bin_path("graphx", "c03_nest"))
    root = "/var/tmp/verif-c03-" + hashlib.sha1(REPO.encode()).hexdigest()[:10]
    h = os.path.join(root, "h")
    os.makedirs(h, exist_ok=True)
    for c in ("vh", "graphx"):
        dst = os.path.join(h, c)
        shutil.rmtree(dst, ignore_errors=True)
        shutil.copytree(os.path.join(VERIF, "harness", c), dst)
        p = os.path.join(dst, "Cargo.toml")
        txt = open(p).read().replace('path = "/repo"', 'path = "%s"' % REPO)
        open(p, "w").write(txt)
    shutil.copy(os.path.join(VERIF, "harness", "Cargo.lock"), os.path.join(h, "graphx", "Cargo.lock"))
    # same profiles as the real harness build (harness/.cargo/config.toml), own target dir
    os.makedirs(os.path.join(h, ".cargo"), exist_ok=True)
    cfg = open(os.path.join(VERIF, "harness", ".cargo", "config.toml")).read().replace("/verif/.cache/target", os.path.join(root, "target"))
    open(os.path.join(h, ".cargo", "config.toml"), "w").write(cfg)
    t = time.time()
    p = subprocess.run(["timeout", "1200", "cargo", "build", "--offline", "--bins"], cwd=os.path.join(h, "graphx"),
                       env=env_offline({"CARGO_TARGET_DIR": os.path.join(root, "target")}),
                       stdout=subprocess.PIPE, stderr=subprocess.STDOUT, text=True)
    if p.returncode != 0:
        raise BuildFailed(p.stdout[-6000:])
    log(f"[build] scratch harness for {REPO} in {time.time()-t:.1f}s")
    return os.path.join(root, "target", "debug")


def _child_limits():
    resource.setrlimit(resource.RLIMIT_CORE, (0, 0))            # no core dumps
    resource.setrlimit(resource.RLIMIT_STACK, (8 << 20, 8 << 20))  # 8 MB main-thread stack


def child(bindir, args, timeout=90):
    """One child process; a crash is an exit status, never an exception of ours."""
    t = time.time()
    try:
        p = subprocess.run([os.path.join(bindir, "c03_nest")] + [str(a) for a in args], stdout=subprocess.PIPE,
                           stderr=subprocess.PIPE, text=True, preexec_fn=_child_limits, timeout=timeout,
                           env=env_offline())
    except subprocess.TimeoutExpired:
        return {"status": "timeout", "exit": "timeout>%ds" % timeout, "wall": timeout}
    w = round(time.time() - t, 3)
    if p.returncode != 0:
        tail = p.stderr.strip().splitlines()[-1][:120] if p.stderr.strip() else ""
        return {"status": "crash", "exit": p.returncode, "stderr": tail, "wall": w}
    try:
        o = json.loads(p.stdout.strip().splitlines()[-1])
    except Exception:
        return {"status": "crash", "exit": "no-output", "stderr": p.stdout[-200:], "wall": w}
    o["wall"] = w
    return o


def pmap(f, xs, workers=NCPU):
    with ThreadPoolExecutor(workers) as ex:
        return list(ex.map(f, xs))


# ------------------------------------------------------------------ translator -> Coq
def known_cycle_names():
    return [k.split(":", 1)[1] for k, _ in known_findings("C03") if k.startswith("cycle:")]


def bounded_specs():
    specs = json.load(open(EXC_FILE))["bounded_edges"]
    return specs, ["%s|%s|%d|%s|%s" % (s["from"], s["to"], s["bound"], s["hash"], ",".join(s["pins"])) for s in specs]


def translate(bindir, known=None):
    args = [os.path.join(REPO, "src")]
    kn = known_cycle_names() if known is None else known
    if kn:
        args += ["--known", ",".join(kn)]
    for s in bounded_specs()[1]:
        args += ["--bounded", s]
    p = subprocess.run([os.path.join(bindir, "c03_callgraph")] + args, stdout=subprocess.PIPE, stderr=subprocess.PIPE,
                       text=True, timeout=300)
    if p.returncode != 0:
        raise RuntimeError("c03_callgraph failed: " + p.stderr[-2000:])
    return json.loads(p.stdout)


def nlist(xs):
    return "[" + "; ".join(str(x) for x in xs) + "]"


def write_callgraph(g):
    edges = [(e["from"], e["to"]) for e in g["edges"]]
    lines = ["(* GENERATED on every run by lib/props/C03.py from harness/graphx c03_callgraph over",
             "   %s/src/parser/*.rs and src/dialect/*.rs.  %d nodes, %d edges. *)" % (REPO, len(g["nodes"]), len(edges)),
             "Require Import SqlV.Base SqlV.Depth.",
             "Definition cg_edges : list (N * N) := ["]
    row, rows = [], []
    for (a, b) in edges:
        row.append("(%d,%d)" % (a, b))
        if len(row) == 12:
            rows.append("; ".join(row)); row = []
    if row:
        rows.append("; ".join(row))
    lines.append(";\n".join("  " + r for r in rows))
    lines.append("].")
    lines.append("Definition cg_guarded : list N := %s." % nlist(g["guarded"]))
    lines.append("Definition cg_bounded : list (N * N * N) := [%s]." % "; ".join("(%d,%d,%d)" % tuple(b) for b in g["bounded"]))
    lines.append("Definition cg_entries : list N := %s." % nlist(g["entries"]))
    lines.append("Definition cg : graph := mkGraph cg_edges cg_guarded cg_bounded cg_entries.")
    ranks = [(n["id"], n["rank"]) for n in g["nodes"] if n["rank"] > 0]
    lines.append("Definition cg_ranks : list (N * N) := [%s]." % "; ".join("(%d,%d)" % r for r in ranks))
    lines.append("Definition cg_max_rank : N := %d." % g["max_rank"])
    lines.append("Definition cg_exceptions : list N := %s." % nlist(g["exceptions"]))
    ws = []
    for w in g["witnesses"]:
        base = list(reversed(w["path"]))
        cyc = [w["cycle"][0]] + list(reversed(w["cycle"][1:]))
        ws.append("(%s, %s)" % (nlist(base), nlist(cyc)))
    lines.append("Definition cg_witnesses : list (list N * list N) := [%s]." % "; ".join(ws))
    lines.append("(* node table: id owner::name [G = guarded, X = listed exception]")
    exc = set(g["exceptions"])
    for n in g["nodes"]:
        q = n["q"].replace("*)", "* )").replace("(*", "( *")
        lines.append("   %d %s%s%s rank %d" % (n["id"], q, " G" if n["guarded"] else "", " X" if n["id"] in exc else "", n["rank"]))
    lines.append("*)")
    write_if_changed(os.path.join(GEN, "CallGraph.v"), "\n".join(lines) + "\n")


# ------------------------------------------------------------------ dynamic side
def templates(bindir):
    p = subprocess.run([os.path.join(bindir, "c03_nest"), "list"], stdout=subprocess.PIPE, text=True, check=True)
    return json.loads(p.stdout)


def short(q):
    """Parser::parse_x@Parser::y / Parser::parse_x::{closure#0} -> parse_x"""
    q = q.split("@")[0]
    parts = [p for p in q.split("::") if not p.startswith("{")]
    return parts[-1] if len(parts) == 1 else parts[1] if parts[0] in ("Parser",) else parts[-1]


def comp_funcs(names):
    return {short(q) for q in names}


def templates_for(ts, names):
    fs = comp_funcs(names)
    hit = [t for t in ts if fs & set(t["funcs"])]
    # most specific first: largest overlap relative to the template's own function list
    hit.sort(key=lambda t: -len(fs & set(t["funcs"])) / max(1, len(t["funcs"])))
    return hit


def search_crash(bindir, ts, names, limit="default", budget=8, deadline_s=100):
    """Directed search: nest the constructs that exercise the given functions until the child dies."""
    cands = templates_for(ts, names) or [t for t in ts if t["kind"] == "nest"]
    cands.sort(key=lambda t: t["kind"] != "nest")  # nesting constructs first (stable)
    tried, t0 = [], time.time()
    for t in cands[:budget]:
        depths = (2000, 20000, 200000, 1000000) if t["kind"] == "nest" else (20000, 200000)
        for d in t["dialects"][:2]:
            for n in depths:
                for mode in ("thread", "main"):
                    if time.time() - t0 > deadline_s:
                        return None, tried
                    r = child(bindir, ["nest", t["id"], n, d, limit, mode], timeout=60)
                    tried.append((t["id"], d, n, mode, r["status"]))
                    if r["status"] in ("crash", "timeout"):
                        return {"template": t["id"], "n": n, "dialect": d, "limit": limit, "stack": mode,
                                "exit_status": r["exit"], "stderr": r.get("stderr", ""), "example_depth2": t["example"]}, tried
                if r["status"] == "limit":
                    break  # this construct is stopped by the limit in this dialect
    return None, tried


def classify(t, d, n, L, r, listed):
    """-> (verdict, class) verdict in ok | crash | masked | uncounted | rejected"""
    st = r["status"]
    if st in ("crash", "timeout", "panic"):
        return "crash"
    if not listed:
        return "ok"  # other dialects: only 'returns normally' is required
    if t["kind"] == "nest":
        if n > 3 * L:
            if st == "limit":
                return "ok"
            return "uncounted" if st == "ok" else "masked"
        return "ok"
    # flat: long input of bounded nesting must not be rejected by the limit
    if st == "limit":
        return "rejected"
    return "ok"


def check(run):
    t_start = time.time()
    thorough = run.tier == "thorough"
    run.cov["rule"] = ("static: one obligation per theorem statement in the cone of Properties/C03.v (incl. check_cert on the regenerated graph). "
                       "dynamic: one evaluation = one child process (template, n, dialect, limit, stack); non-trivial = distinct (template, dialect, limit, n) "
                       "with n >= 1 whose child returned a classified outcome; sibling / re-use / threshold runs counted the same way; "
                       "counter-model and set-operation cases are compared with the Coq model inside the kernel VM")
    run.cov["checker_cmd"] = "make -C coq Properties/C03.vo (coqc 8.16.1, full .vo) + coqc on generated case files"
    run.cov["trusted_base"] = TRUSTED_BASE_COMMON + [
        "translator harness/graphx/src/bin/c03_callgraph.rs (syn 2): which functions exist, which calls they contain, which functions start with a named DepthGuard binding; resolution of a call by receiver shape falls back to every node of that name; macro bodies parsed as expression lists or token-scanned; higher-order functions instantiated per calling context",
        "stack model: frames of functions defined in src/parser and src/dialect only; std combinators, compiler-generated Drop glue and Display impls are not nodes; bytes per frame are not modelled (the theorem bounds the NUMBER of frames)",
        "the bounded edge parse_remaining_set_exprs -> parse_boxed_query_body (at most 2 per guard-free segment) rests on the model Depth.qrem of that loop (theorem setops_depth_le2), pinned by a hash of the three function bodies and compared with the implementation's tree shape on sampled operator sequences",
        "that deep inputs of each construct really exercise the corresponding cycle is observed on the child processes, not proved",
    ]
    bindir = harness_bin()
    ts = templates(bindir)
    known = dict(known_findings("C03"))

    # ---- 1. translate, generate, prove
    g = translate(bindir)
    write_callgraph(g)
    names = {n["id"]: n["q"] for n in g["nodes"]}
    pr = prove("C03")
    run.cov["obligations"] = pr["statements"]
    run.cov["discharged"] = pr["statements"] if pr["ok"] else 0
    run.notes["print_assumptions"] = {"closed_under_global_context": pr["closed"], "axioms": pr["axioms"]}
    run.notes["cone"] = pr["cone"]
    bsum = sum(b[2] for b in g["bounded"])
    run.notes["graph"] = {"nodes": len(g["nodes"]), "edges": len(g["edges"]), "call_sites": g["call_sites"],
                          "guarded": [names[i] for i in g["guarded"]], "entries": len(g["entries"]),
                          "max_rank": g["max_rank"], "bounded": g["bounded_report"],
                          "frame_bound_default_limit": (DEFAULT_L + 1) * (bsum + 1) * (g["max_rank"] + 1),
                          "fallback_resolutions": g["fallback_resolutions"], "certificate_exists": g["certificate_exists"],
                          "unguarded_cyclic_components": g["sccs_unguarded"], "exceptions": [names[i] for i in g["exceptions"]],
                          "guard_notes": g["guard_notes"]}
    run.assumptions = ["feature std (the no-std RecursionCounter is a no-op by design and is outside the property)",
                       "frames of functions outside src/parser and src/dialect add O(1) per parser frame",
                       "(L+1)(K+1)(R+1) frames fit the 8 MB / 2 MB stacks at the default limit: observed on the ladders, not proved"]
    log(f"[c03] graph: {len(g['nodes'])} nodes, {len(g['edges'])} edges, guarded {run.notes['graph']['guarded']}, R={g['max_rank']}, certificate={g['certificate_exists']}")

    for b in g["bounded_report"]:
        if not b["honoured"]:
            log(f"[c03] bounded-edge exception NOT honoured (body hash {b['current_hash']} != pinned {b['pinned_hash']}): {b['from']} -> {b['to']}")
    for u in g["unresolved"]:
        run.violation({"what": "the translator met a construct it cannot interpret soundly", "unchecked": "call-graph extraction obligation",
                       "obligation": u}, no_input=True)
    for note in g["guard_notes"]:
        log(f"[c03] not a guard: {note['node']}: {note['note']}")

    # excepted components (known findings that still reproduce statically)
    exc_comp = {}
    for ku in g["known_used"]:
        exc_comp[ku["key"]] = ku["component"]
    crash_known_funcs = {}
    for key, comp in exc_comp.items():
        crash_known_funcs["cycle:" + key] = comp_funcs(comp)

    # ---- 2. the static verdict
    static_bad = []
    for off in g["offending"]:
        static_bad.append(off)
    if static_bad or not pr["ok"]:
        found_any = False
        for off in static_bad:
            hit, tried = search_crash(bindir, ts, off["component"])
            rep = {"what": "unguarded recursion cycle: the rank certificate does not check (no DepthGuard on this cycle)",
                   "cycle": off["cycle_names"], "cycle_edges": off["edges"], "path_from_entry": off["path_names"],
                   "component": off["component"][:40]}
            if hit:
                found_any = True
                rep.update(hit)
                rep["observed"] = "child process died: %s" % hit["exit_status"]
                rep["expected"] = "Err(RecursionLimitExceeded)"
                run.violation(rep)
            else:
                rep["unchecked"] = "check_cert (Properties/C03.v cert_ok)"
                rep["tried"] = tried[-20:]
                run.violation(rep, no_input=True)
        if not pr["ok"] and not static_bad:
            run.violation({"what": "a proof obligation of C03 no longer checks", "unchecked": failing_coq_item(pr["output"]),
                           "forbidden": pr["forbidden"], "axioms": pr["axioms"]}, no_input=True)

    # ---- 3. nesting ladders
    L = DEFAULT_L
    rungs = [L // 2, L, 3 * L + 1, 10 ** 4, 10 ** 5] + ([10 ** 6] if thorough else [])
    jobs = []
    for t in ts:
        ds = ALL_DIALECTS if thorough else t["dialects"][:2]
        for d in ds:
            listed = d in t["dialects"]
            for n in rungs:
                if n >= 10 ** 6 and (not listed or t["id"] in SLOW_FLAT):
                    continue
                for mode in ("main", "thread"):
                    if not listed and mode == "main" and n < 10 ** 4:
                        continue
                    jobs.append((t, d, n, "default", L, mode, listed))
        # a second limit
        d = t["dialects"][0]
        for n in (5, 10, 31, 10 ** 4):
            jobs.append((t, d, n, "10", 10, "thread", True))
    res = pmap(lambda j: child(bindir, ["nest", j[0]["id"], j[2], j[1], j[3], j[5]], timeout=120), jobs)
    stat, distinct = {}, set()
    bad = {}
    for j, r in zip(jobs, res):
        t, d, n, lim, Lv, mode, listed = j
        v = classify(t, d, n, Lv, r, listed)
        stat[v + ":" + r["status"]] = stat.get(v + ":" + r["status"], 0) + 1
        if n >= 1 and r["status"] not in ("crash", "timeout"):
            distinct.add((t["id"], d, lim, n))
        if v != "ok":
            bad.setdefault((t["id"], v), []).append((j, r))
    run.add_eval(len(jobs), len(distinct))
    run.notes["ladder"] = {"children": len(jobs), "outcomes": stat, "rungs": rungs, "templates": len(ts),
                           "max_child_wall_s": max(r["wall"] for r in res)}
    for j, r in list(zip(jobs, res))[:3]:
        run.sample({"template": j[0]["id"], "n": j[2], "dialect": j[1], "limit": j[3], "stack": j[5], "result": {k: r[k] for k in r if k != "head"}})
    tmap = {t["id"]: t for t in ts}
    for (tid, v), items in sorted(bad.items()):
        t = tmap[tid]
        items.sort(key=lambda x: (x[0][2], x[0][5]))
        (tt, d, n, lim, Lv, mode, listed), r = items[0]
        rep = {"template": tid, "n": n, "dialect": d, "limit": lim, "stack": mode, "kind": t["kind"],
               "input_depth2": t["example"], "observed": r, "cases_of_this_class": len(items)}
        key = None
        if v in ("crash", "uncounted"):
            for k, fs in crash_known_funcs.items():
                if fs & set(t["funcs"]):
                    key = k
            if key is None and ("drop:" + tid) in known and v == "crash":
                key = "drop:" + tid
            rep["what"] = ("child process died while parsing (stack exhausted or time-out)" if v == "crash" else
                           "nesting deeper than 3*limit parses Ok: the construct is not counted against the limit")
            rep["expected"] = "Err(RecursionLimitExceeded)" if t["kind"] == "nest" else "Ok"
        elif v == "masked":
            key = "masked:" + tid if ("masked:" + tid) in known else None
            rep["what"] = "nesting deeper than 3*limit returns an error other than RecursionLimitExceeded (the limit error is swallowed on the way up)"
            rep["expected"] = "Err(RecursionLimitExceeded)"
        elif v == "rejected":
            key = "flat:" + tid if ("flat:" + tid) in known else None
            rep["what"] = "a long input of bounded nesting is rejected by the recursion limit"
            rep["expected"] = "Ok"
        if key:
            if key not in run.known_hit or v == "crash":
                run.known(key, "%s n=%d dialect=%s limit=%s stack=%s -> %s" % (tid, n, d, lim, mode, r.get("exit", r["status"])))
        else:
            run.violation(rep)

    # known cycles must still reproduce dynamically, otherwise say so
    for k in crash_known_funcs:
        if k not in run.known_hit:
            run.known(k, "static only: the unguarded cycle is still in the call graph (no template crashed in this run)")

    # ---- 4. siblings and parser re-use
    m = 20000 if thorough else 2000
    sj = []
    for t in ts:
        for d in (t["dialects"] if thorough else t["dialects"][:1]):
            # limits below, at and above the default (a release that is capped at / confused with the default
            # budget only shows for a configured limit above it)
            for lim, Lv in (("default", L), ("10", 10), ("80", 80)):
                sj.append(("sibling", t, d, lim, Lv))
            if t["kind"] == "nest":
                sj.append(("reuse", t, d, "10", 10))
                sj.append(("reuse", t, d, "80", 80))
    # a limit above the default needs proportionally more stack: those children run on the 8 MB main-thread stack
    stack_for = lambda Lv: "main" if Lv > L else "thread"
    def run_s(j):
        kind, t, d, lim, Lv = j
        if kind == "sibling":
            mm = min(m, 2000) if t["id"] in SLOW_FLAT else m  # these parse in super-linear time (C02's business)
            return child(bindir, ["sibling", t["id"], Lv // 2, mm, d, lim, stack_for(Lv)], timeout=300)
        return child(bindir, ["reuse", t["id"], 3 * Lv + 1, Lv // 2, d, lim, stack_for(Lv)], timeout=300)
    sres = pmap(run_s, sj)
    sstat = {}
    for j, r in zip(sj, sres):
        kind, t, d, lim, Lv = j
        sstat[kind + ":" + r["status"]] = sstat.get(kind + ":" + r["status"], 0) + 1
        if r["status"] in ("ok", "skip"):
            continue
        rep = {"template": t["id"], "mode": kind, "dialect": d, "limit": lim, "siblings": m, "observed": r,
               "what": ("%d sibling constructs of depth <= limit/2 do not parse: depth is not released when a construct ends" % m) if kind == "sibling"
                       else "after a parse that hit the limit, the same Parser no longer parses a shallow input: depth not restored",
               "expected": "Ok"}
        key = None
        if r["status"] in ("crash", "timeout"):
            for k, fs in crash_known_funcs.items():
                if fs & set(t["funcs"]):
                    key = k
        if r["status"] in ("error", "not_restored") and kind == "reuse" and ("masked:" + t["id"]) in known:
            key = "masked:" + t["id"]
        if r["status"] == "limit" and ("flat:" + t["id"]) in known:
            key = "flat:" + t["id"]
        if key:
            if key not in run.known_hit:
                run.known(key, "%s %s dialect=%s limit=%s -> %s" % (kind, t["id"], d, lim, r.get("exit", r["status"])))
        else:
            run.violation(rep)
    # ---- 4b. configurations: the limit set with with_recursion_limit holds whatever the order of the builder calls
    bj = [(t, d, lim, deep) for t in ts if t["kind"] == "nest" and t["id"] in ("parens", "subquery_expr", "case", "func_args", "derived_table")
          for d in t["dialects"][:(3 if thorough else 1)] for lim in (7, 60) for deep in (30, 150)]
    bres = pmap(lambda j: child(bindir, ["builders", j[0]["id"], j[3], j[1], str(j[2]), "main"], timeout=120), bj)
    bstat = {}
    for (t, d, lim, deep), r in zip(bj, bres):
        bstat[r["status"]] = bstat.get(r["status"], 0) + 1
        if r["status"] not in ("ok", "skip", "tokenizer_error"):
            run.violation({"template": t["id"], "mode": "builders", "dialect": d, "limit": str(lim), "depth": deep, "observed": r,
                           "input": {"sql_shape": "%s nested %d deep" % (t["id"], deep), "builder_order": r.get("order")},
                           "what": "the configured recursion limit (or options) does not survive the order of builder calls: the limit that bounds nesting is not the one the caller set",
                           "expected": "every order of with_recursion_limit / with_options / try_with_sql / with_tokens yields a parser with remaining depth = the configured limit and the same outcome"})
    run.add_eval(12 * len(bj), 12 * sum(1 for r in bres if r["status"] == "ok"))
    run.notes["builder_orders"] = {"children": len(bj), "orders_per_child": 12, "outcomes": bstat}
    run.add_eval(len(sj), sum(1 for r in sres if r["status"] == "ok"))
    run.notes["siblings_reuse"] = {"children": len(sj), "siblings_per_input": m, "outcomes": sstat}
    run.sample({"sibling": sj[0][1]["sibling_example"], "result": sres[0]})

    # ---- 5. counter model vs implementation (thresholds), inside Coq
    limits = [5, 10, 20, 50, 80]
    guarded_nest = [t for t in ts if t["kind"] == "nest" and not any(fs & set(t["funcs"]) for fs in crash_known_funcs.values())]
    tj = [(t, t["dialects"][0], Lv) for t in guarded_nest for Lv in limits]
    tres = pmap(lambda j: child(bindir, ["thresh", j[0]["id"], j[1], j[2], 4 * j[2] + 8], timeout=120), tj)
    thr = {}
    for (t, d, Lv), r in zip(tj, tres):
        if r["status"] == "done":
            thr.setdefault(t["id"], {})[Lv] = (r["last_ok"], (r["first_bad"] or {}).get("status"))
    terms, fits, nofit = [], {}, []
    for tid, by in thr.items():
        if len(by) < len(limits) or any(v[1] != "limit" for v in by.values()):
            continue  # masked / unguarded constructs are reported by the ladder
        fit = None
        for a in range(1, 7):
            for b in range(0, 12):
                if all(a * by[Lv][0] + b <= Lv < a * (by[Lv][0] + 1) + b for Lv in (5, 20)):
                    fit = (a, b); break
            if fit:
                break
        if not fit:
            nofit.append(tid); continue
        fits[tid] = fit
        for Lv in limits:
            T = by[Lv][0]
            for n in range(0, T + 3):
                terms.append("(%d, %d, %d, %d, %s)" % (fit[0], fit[1], n, Lv, coq_bool(n > T)))
    run.notes["counter_model"] = {"templates_fitted": len(fits), "fits_units_per_level_and_overhead": fits, "no_fit": nofit,
                                  "thresholds": {k: {str(l): v[0] for l, v in by.items()} for k, by in thr.items()}}
    if nofit:
        run.violation({"what": "no counter model a*n+b <= L explains the observed limit thresholds", "unchecked": "correspondence chain_outcome",
                       "templates": nofit, "thresholds": {k: thr[k] for k in nofit}}, no_input=True)
    if terms and os.path.exists(os.path.join(COQ, "theories/Depth.vo")):
        try:
            badc = run_coq_cases("c03_counter", HEADER, terms,
                                 "(fun c => match c with (a, b, n, L, o) => Bool.eqb (chain_outcome a b n L) o end)",
                                 per_case_type="(N * N * N * N * bool)")
        except RuntimeError as e:
            badc = None
            run.violation({"what": "model evaluation failed", "unchecked": "correspondence chain_outcome", "tool_output": str(e)[-2000:]}, no_input=True)
        run.notes["counter_model"]["cases"] = len(terms)
        run.notes["counter_model"]["disagreements"] = None if badc is None else len(badc)
        run.add_eval(len(terms), len(terms))
        for i in (badc or [])[:3]:
            run.violation({"what": "the limit threshold is not the linear budget of the counter model (try_decrease / DepthGuard do not behave as a counter)",
                           "unchecked": "correspondence chain_outcome", "case (a,b,n,L,limit_observed)": terms[i]}, no_input=True)

    # ---- 6. set-operation loop: model depth vs right-nesting of the implementation's tree
    cases = []
    for i in range(600 if thorough else 250):
        ln = run.rng.randrange(0, 14) if i % 5 else run.rng.randrange(100, 3000)
        cases.append({"ops": [run.rng.randrange(3) for _ in range(ln)], "dialect": ALL_DIALECTS[i % 13]})
    import itertools
    for ln in range(0, 5):
        for ops in itertools.product(range(3), repeat=ln):
            cases.append({"ops": list(ops), "dialect": "generic"})
    p = subprocess.run([os.path.join(bindir, "c03_nest"), "setops"], input="".join(json.dumps(c) + "\n" for c in cases),
                       stdout=subprocess.PIPE, stderr=subprocess.PIPE, text=True, preexec_fn=_child_limits, timeout=600)
    if p.returncode != 0:
        run.violation({"what": "set-operation driver died", "observed": p.returncode, "stderr": p.stderr[-300:]}, no_input=True)
    else:
        outs = [json.loads(l) for l in p.stdout.splitlines() if l.strip()]
        sterms = []
        for c, o in zip(cases, outs):
            if o["status"] == "ok":
                sterms.append("(%s, %d)" % (nlist(c["ops"]), o["right_depth"]))
        try:
            bads = run_coq_cases("c03_setops", HEADER, sterms,
                                 "(fun c => match c with (ops, d) => N.eqb (setops_depth ops) d end)",
                                 per_case_type="(list N * N)")
        except RuntimeError as e:
            bads = None
            run.violation({"what": "model evaluation failed", "unchecked": "correspondence setops_depth", "tool_output": str(e)[-2000:]}, no_input=True)
        run.notes["setops"] = {"cases": len(sterms), "disagreements": None if bads is None else len(bads),
                               "max_right_depth_observed": max([o.get("right_depth", 0) for o in outs] or [0])}
        run.add_eval(len(sterms), len({tuple(c["ops"]) for c in cases}))
        for i in (bads or [])[:3]:
            run.violation({"what": "the set-operation loop nests differently from its model (bounded-edge exception no longer justified)",
                           "unchecked": "correspondence setops_depth", "case": sterms[i]}, no_input=True)
    # ---- 7. translator validation: caller/callee pairs observed in backtraces taken at the
    # dialect hooks (wrapper dialect) must be edges of the extracted graph (by function name)
    try:
        probe_validation(run, bindir, g, ts, 1500 if thorough else 400)
    except Exception as e:  # the validation is evidence, its failure is a machinery failure
        run.violation({"what": "translator validation could not run", "unchecked": "backtrace probe", "tool_output": repr(e)[-1500:]}, no_input=True)
    log(f"[c03] done in {time.time()-t_start:.1f}s")


def probe_validation(run, bindir, g, ts, ncorpus):
    import re
    from corpus import corpus
    cs = list(corpus())
    run.rng.shuffle(cs)
    cases = [{"sql": e["sql"], "dialect": e["dialects"][0]} for e in cs[:ncorpus]]
    for t in ts:
        cases.append({"sql": t["example"], "dialect": t["dialects"][0]})
        cases.append({"sql": t["sibling_example"], "dialect": t["dialects"][0]})
    p = subprocess.run([os.path.join(bindir, "c03_nest"), "probe"], input="".join(json.dumps(c) + "\n" for c in cases),
                       stdout=subprocess.PIPE, stderr=subprocess.PIPE, text=True, preexec_fn=_child_limits, timeout=900)
    if p.returncode != 0:
        raise RuntimeError("probe exited %s: %s" % (p.returncode, p.stderr[-300:]))
    pairs = json.loads(p.stderr.strip().splitlines()[-1])

    def base(q):
        q = q.split("@")[0]
        return [x for x in q.split("::") if not x.startswith("{")][-1]

    def sym(x):
        x = re.sub(r"::h[0-9a-f]{16}$", "", x)
        for _ in range(3):
            x = re.sub(r"<[^<>]*>", "", x)
        parts = [y for y in x.split("::") if y and not y.startswith("{{")]
        return parts[-1] if parts else x
    E, adj = set(), {}
    for e in g["edges"]:
        a, b = base(g["nodes"][e["from"]]["q"]), base(g["nodes"][e["to"]]["q"])
        E.add((a, b)); adj.setdefault(a, set()).add(b)
    names = {base(n["q"]) for n in g["nodes"]}
    seen, direct, indirect, missing = set(), 0, 0, []
    for a, b in pairs:
        x, y = sym(a), sym(b)
        if (x, y) in seen:
            continue
        seen.add((x, y))
        if x == y or (x, y) in E:
            direct += 1
            continue
        fr, ok = {x}, False
        for _ in range(2):  # a frame lost to inlining / tail call
            fr = {z for w in fr for z in adj.get(w, ())}
            ok = ok or y in fr
        if ok and x in names and y in names:
            indirect += 1
        else:
            missing.append([a, b])
    run.notes["translator_validation"] = {"parses": len(cases), "distinct_caller_callee_pairs": len(seen), "direct_edges": direct,
                                          "explained_by_a_2_step_path": indirect, "missing": missing[:10]}
    run.add_eval(len(cases), len(seen))
    for m in missing[:3]:
        run.violation({"what": "a caller/callee pair observed in a backtrace is not an edge of the extracted call graph (translator unsound here)",
                       "unchecked": "call-graph extraction (backtrace validation)", "pair": m}, no_input=True)


def replay(path):
    r = json.load(open(path))
    print(json.dumps(r, indent=1, ensure_ascii=False))
    if "template" in r:
        bindir = harness_bin()
        if r.get("mode") == "sibling":
            L = DEFAULT_L if r["limit"] == "default" else int(r["limit"])
            out = child(bindir, ["sibling", r["template"], L // 2, r["siblings"], r["dialect"], r["limit"], "main" if L > DEFAULT_L else "thread"], timeout=300)
        elif r.get("mode") == "builders":
            out = child(bindir, ["builders", r["template"], r["depth"], r["dialect"], r["limit"], "main"], timeout=120)
            print("implementation now:", json.dumps(out))
            return 0 if out["status"] == "ok" else 1
        elif r.get("mode") == "reuse":
            L = int(r["limit"])
            out = child(bindir, ["reuse", r["template"], 3 * L + 1, L // 2, r["dialect"], r["limit"], "main" if L > DEFAULT_L else "thread"], timeout=300)
        else:
            out = child(bindir, ["nest", r["template"], r["n"], r["dialect"], r["limit"], r.get("stack", "thread")], timeout=300)
        print("implementation now:", json.dumps(out))
    elif "cycle" in r:
        g = translate(harness_bin())
        print("unguarded cyclic components now:", json.dumps(g["sccs_unguarded"], indent=1))
        print("certificate exists now:", g["certificate_exists"])
    return 0
