"""C20 — turning un-escaping off preserves every literal's raw text."""
import json
import re
from common import *
from lexlib import *
from corpus import corpus


def gen_all(run):
    gen_dialect_tables()


PAYLOADS = ["a]b", "]x", "a]]", "", "a", "a'b", "it's", "''", "a\\b", "a\\'b", "\\", "\\\\", 'a"b', '""', "a`b", "x\ny", "é", "\U0001F600", "a\\nb", "%_", "$$", "a''b\\\\"]


def render_source(kind, payload, bs):
    """Render a payload as SOURCE text of a literal/identifier (doubling quotes; in backslash
    dialects escaping backslashes so the literal stays well-formed)."""
    q = {"sq": "'", "dq": '"', "bq": "`", "nat": "'", "hex": "'", "br": "]"}[kind]
    body = ""
    for ch in payload:
        if ch == q:
            body += q + q
        elif ch == "\\" and (bs or kind in ("nat", "hex")):
            body += "\\\\"
        else:
            body += ch
    pre = {"sq": "", "dq": "", "bq": "", "nat": "N", "hex": "X", "br": ""}[kind]
    if kind == "br":
        return "[" + body + "]"
    return pre + q + body + q


def gen_texts(run, tables):
    out = []
    for d in DIALECTS:
        bs = tables["dialects"][d]["backslash"]
        for p in PAYLOADS:
            for k in ("sq", "dq", "bq", "nat", "br"):
                if k == "br" and (p == "" or p[0] in "]0123456789'\"\\ " or not (int(tables["dialects"][d]["delim_start"]["mask"]) >> 91) & 1):
                    continue
                lit = render_source(k, p, bs)
                out.append({"dialect": d, "sql": "SELECT %s, %s AS c FROM t WHERE x = %s" % (lit, lit, lit)})
            if bs:
                out.append({"dialect": d, "sql": "SELECT 'a\\'b', 'c\\\\', 'd\\n' FROM t"})
        out.append({"dialect": d, "sql": "SELECT E'a\\x41''b', E'plain', U&'d\\0061t', U&'plain' FROM t"})
    return out


def check(run):
    run.cov["rule"] = ("texts: literals and quoted identifiers rendered as source from a payload set (quotes doubled, backslashes per dialect) in SELECT/alias/WHERE positions x 13 dialects, "
                       "plus every corpus text containing a quote or backslash under its accepting dialects; for each: token-level raw-body check (drive lexprop, unescape off), "
                       "parse raw -> print -> bodies compared, and raw/cooked tree shape comparison. non-trivial = text with >= 1 literal whose source body contains a doubled quote or a backslash")
    run.cov["checker_cmd"] = "make -C coq Properties/C20.vo + coqc on generated case files (vm_compute)"
    run.cov["trusted_base"] = TRUSTED_BASE_COMMON + [
        "modelled rather than verified: tokenize_quoted_string / parse_quoted_ident / EscapeQuotedString (Lexer.v, Escape.v)",
        "tree-level clauses (bodies in the tree, print preserves them, shapes equal) are explored on the implementation; the theorems are token level",
    ]
    tables, _ = gen_dialect_tables()
    pr = prove("C20")
    run.cov["obligations"] = pr["statements"]
    run.cov["discharged"] = pr["statements"] if pr["ok"] else 0
    run.notes["print_assumptions"] = {"closed_under_global_context": pr["closed"], "axioms": pr["axioms"]}
    run.notes["cone"] = pr["cone"]
    known = dict(known_findings("C20"))

    texts = gen_texts(run, tables)
    n_gen = len(texts)
    for e in corpus():
        if ("'" in e["sql"] or '"' in e["sql"] or "\\" in e["sql"] or "`" in e["sql"]) and "stdin" not in e["sql"].lower():
            ds = e["dialects"] if run.tier == "thorough" else [run.rng.choice(e["dialects"])]
            for d in ds:
                texts.append({"dialect": d, "sql": e["sql"]})
    lp = run_bin_parallel("drive", ["lexprop"], [dict(t, unescape=False) for t in texts])
    rm = run_bin_parallel("drive", ["rawmode"], texts)
    viol = 0
    nontriv = set()
    stat = {"lexprop_bad": 0, "rawmode_bad": 0, "known": 0}
    for t, a, b in zip(texts, lp, rm):
        if re.search(r"''|\"\"|``|\\", t["sql"]):
            nontriv.add((t["dialect"], t["sql"]))
        probs = [("token", p) for p in a.get("problems", [])] + [("tree", p) for p in b.get("problems", [])]
        if a["status"] == "panic" or b["status"] == "panic":
            run.violation({"what": "panic in raw mode", "dialect": t["dialect"], "input": t["sql"], "observed": probs})
            continue
        bp = b.get("bodies")
        if bp:
            extra = bp.get("printed_not_in_source")
            if extra is not None and all(x.startswith(("KEscaped:", "KUnicode:")) for x in extra):
                for x in extra:
                    probs.append(("tree", "rawbody:escaped" if x.startswith("KEscaped:") else "rawbody:unicode"))
            elif extra and all(x.startswith("KSingle:") for x in extra) and bp.get("source") and len(bp["source"]) == len(extra) and \
                    all(x.startswith(("KEscaped:", "KUnicode:")) for x in bp["source"]):
                # the same E'..' / U&'..' bodies in a position that stores a bare string (parse_literal_string: LIKE .. ESCAPE,
                # COPY .. DELIMITER, COMMENT .. IS, typed strings): un-escaped by the tokenizer as above, printed with plain quotes
                for x in bp["source"]:
                    probs.append(("tree", "rawbody:escaped" if x.startswith("KEscaped:") else "rawbody:unicode"))
            else:
                probs.append(("tree", "bodies:" + json.dumps(bp, ensure_ascii=False)))
        for level, p in probs:
            key = None
            if p.startswith("rawbody:escaped"):
                key = "escaped-literal-no-raw-mode"
            elif p.startswith("rawbody:unicode"):
                key = "unicode-literal-no-raw-mode"
            if key and key in known:
                run.known(key, known[key])
                stat["known"] += 1
            else:
                viol += 1
                stat["lexprop_bad" if level == "token" else "rawmode_bad"] += 1
                if viol <= 8:
                    run.violation({"what": "raw mode does not preserve a literal body / shapes differ between modes", "level": level,
                                   "dialect": t["dialect"], "input": t["sql"], "observed": p[:600]})
    run.add_eval(len(texts), len(nontriv))
    run.notes["statement_level"] = dict(stat, texts=len(texts), generated=n_gen,
                                        raw_accepted=sum(1 for b in rm if b.get("raw_ok")), literals=sum(b.get("literals", 0) for b in rm))
    run.sample({"text": texts[3], "token_level": lp[3], "tree_level": rm[3]})

    # lexer model correspondence in both modes on quote/backslash-heavy inputs
    frag = ["'", "''", "\\", "\\'", "\\\\", '"', '""', "`", "``", "a", " ", "E'", "N'", "x", "'''", '"""', "[", "]", "]]", "[a]]b]", "\n"]
    lt = []
    for _ in range(700 if run.tier == "quick" else 5000):
        lt.append("".join(run.rng.choice(frag) for _ in range(run.rng.randrange(2, 9))))
    lcases = []
    for s in lt:
        d = run.rng.choice(DIALECTS)
        lcases.append({"dialect": d, "sql": s, "unescape": False})
        lcases.append({"dialect": d, "sql": s, "unescape": True})
    try:
        lres, bad, inexpr = lex_correspondence(run, lcases, "c20")
        run.notes["correspondence_lexer_both_modes"] = {"cases": len(lcases), "disagreements": len(bad), "not_expressible": len(inexpr)}
        run.add_eval(len(lcases), len({(c["dialect"], c["sql"], c["unescape"]) for c in lcases}))
        # the shape theorem's statement, evaluated on the implementation
        shape_bad = 0
        for i in range(0, len(lcases), 2):
            a, b = lres[i], lres[i + 1]
            def shape(o):
                if "ok" in o:
                    return [(t[0]["k"], t[0].get("kind"), t[0].get("q"), t[0].get("f"), t[1], t[2]) for t in o["ok"]]
                return ("err", o["err"]["msg"], o["err"]["line"], o["err"]["col"]) if "err" in o else ("panic",)
            if shape(a) != shape(b):
                shape_bad += 1
                if shape_bad <= 3:
                    run.violation({"what": "token streams of the two modes differ in more than literal payloads", "dialect": lcases[i]["dialect"],
                                   "input": lcases[i]["sql"], "observed": {"raw": a, "unescaped": b}})
        for i in bad[:5]:
            if viol == 0 and shape_bad == 0:
                run.violation({"what": "lexer model and Tokenizer disagree", "unchecked": "correspondence lexer (both modes)", "input": lcases[i], "observed": lres[i]}, no_input=True)
    except RuntimeError as e:
        run.violation({"what": "model evaluation failed", "unchecked": "correspondence lexer", "tool_output": str(e)[-2000:]}, no_input=True)
    if not pr["ok"] and viol == 0:
        run.violation({"what": "a proof obligation of C20 no longer checks", "unchecked": failing_coq_item(pr["output"]),
                       "forbidden": pr["forbidden"], "axioms": pr["axioms"]}, no_input=True)


def replay(path):
    r = json.load(open(path))
    print(json.dumps(r, indent=1, ensure_ascii=False))
    if isinstance(r.get("input"), str):
        c = {"dialect": r["dialect"], "sql": r["input"]}
        print("token level:", run_bin("drive", ["lexprop"], [dict(c, unescape=False)])[0])
        print("tree level:", run_bin("drive", ["rawmode"], [c])[0])
    return 0
