"""C05 — printing a parsed statement loses no identifier or literal of the input.

  in_model       ordered content equality on the operator core (Coq, lib/props/c01core.py);
  outside_model  the property itself on the implementation (harness/rtx `content` / `splice`): multiset of
                 content tokens of the accepted input vs of the printed script, same tokenizer settings.
Keyword words are not content; a keyword of the input that occurs nowhere in the printed text is still
reported unless it is a pinned noise word / synonym (rtlib.NOISE_*).  COPY .. FROM STDIN payloads are exempt.
"""
import json
import os
import traceback
from common import *
import rtlib
from rtlib import PKG, Judge

PROP = "C05"
EXPECTED = ("bag(content_tokens(input)) = bag(content_tokens(print(parse(input)))): non-keyword identifiers with their quoting, numbers verbatim, "
            "string literals by kind and value, placeholders; no keyword of the input disappears unless it is an optional noise word or a synonym")


def observed_of(u):
    return {"status": u["status"], "lost": u.get("lost"), "invented": u.get("invented"), "keywords_lost": u.get("kw_lost"),
            "printed": u.get("printed"), "statement_kinds": u.get("stmt_kinds"), "detail": u.get("detail")}


def judge_content(J, stream, case, text, ct, origin=None):
    st = J.stream(stream)
    st["accepted"] += 1
    st["statements"] += len(ct.get("stmt_kinds", []))
    if ct["status"] == "exempt-copy-payload":
        st["exempt"] += 1
        return
    J.accepted_pairs.add((case["dialect"], text))
    J.content_tokens += ct.get("n_content", 0)
    if ct["status"] == "ok":
        return
    c = dict(case, mutated=text) if origin else case
    found = rtlib.ct_findings(c, ct)
    if found:
        st["failed_cases"] += 1
    else:
        st["noise_only"] = st.get("noise_only", 0) + 1
    for key, u in found:
        rep = {"what": "content of an accepted input differs from the content of its printed form", "dialect": case["dialect"], "input": text,
               "options": {"unescape": case["unescape"], "trailing": case["trailing"]}, "stream": stream,
               "observed": observed_of(u), "expected": EXPECTED}
        if origin:
            rep["origin"] = origin
        J.record(stream, key, rep)


def check(run):
    run.cov["rule"] = ("evaluations = (dialect, text, unescape, trailing) cases whose text the implementation accepted (COPY payload cases counted as exempt, "
                       "not evaluated); distinct_nontrivial = distinct (dialect, accepted text) pairs with at least one content token")
    run.cov["checker_cmd"] = "harness/rtx: rtx content | rtx splice (implementation-side search) + lib/props/c01core.py (Coq operator core)"
    run.cov["trusted_base"] = [
        "harness/rtx/src/bin/rtx.rs (content_of: which tokens of the crate's own Tokenizer are content; multiset difference)",
        "lib/rtlib.py: NOISE_GLOBAL / NOISE_BY_KIND (optional noise words and synonyms that may disappear), PSEUDO_KEYWORDS, and the root-cause keys",
        "corpus: string literals of /repo's own tests accepted by at least one dialect (harness/vh corpus)",
    ]
    try:
        if os.environ.get("VERIF_C0105_PART") == "outside":
            # development / mutation self-test only: never green (recorded as an unchecked part)
            run.notes["in_model"] = {"status": "skipped by VERIF_C0105_PART=outside"}
            run.violation({"what": "the operator-core (in_model) part was skipped by VERIF_C0105_PART=outside", "unchecked": PROP + " operator core"}, no_input=True)
        else:
            import importlib
            c01core = importlib.import_module("props.c01core")
            c01core.check_core(run, PROP)
    except BuildFailed:
        raise
    except Exception as e:
        traceback.print_exc()
        run.violation({"what": "the operator-core (in_model) part of C05 failed to run", "unchecked": "C05 operator core (lib/props/c01core.py)",
                       "tool_output": (str(e) or repr(e))[-3000:]}, no_input=True)

    J = Judge(run, PROP)
    J.content_tokens = 0
    nontrivial = set()
    cases = rtlib.corpus_cases(run)
    res = run_bin_parallel(PKG, ["content"], cases, pkg=PKG)
    for c, r in zip(cases, res):
        st = J.stream("corpus")
        st["cases"] += 1
        if r["status"] == "rejected":
            st["rejected_or_no_site"] += 1
            continue
        judge_content(J, "corpus", c, c["sql"], r)
        if r.get("n_content"):
            nontrivial.add((c["dialect"], c["sql"]))
    k = len(cases) // 3
    run.sample({"stream": "corpus", "case": {f: cases[k][f] for f in ("dialect", "sql", "unescape", "trailing")},
                "result": {f: res[k].get(f) for f in ("status", "n_content", "stmt_kinds")}})
    n1 = len(cases)
    # stream (iii): pairs of corpus texts as one script
    cases = rtlib.pair_cases(run)
    res = run_bin_parallel(PKG, ["content"], cases, pkg=PKG)
    for c, r in zip(cases, res):
        st = J.stream("pairs")
        st["cases"] += 1
        if r["status"] == "rejected":
            st["rejected_or_no_site"] += 1
            continue
        judge_content(J, "pairs", c, c["sql"], r)
        if r.get("n_content"):
            nontrivial.add((c["dialect"], c["sql"]))
    n1 += len(cases)
    # exhaustive insertion sweep: the failing mutants are re-run for the full report
    cases, sw = rtlib.sweep_failures(run, "content")
    run.notes["insertion_sweep"] = sw
    J.stream("sweep")["cases"] += sw.get("tried", 0)
    J.stream("sweep")["accepted"] += sw.get("accepted", 0)
    J.stream("sweep")["rejected_or_no_site"] += sw.get("tried", 0) - sw.get("accepted", 0)
    res = run_bin_parallel(PKG, ["content"], cases, pkg=PKG) if cases else []
    for c, r in zip(cases, res):
        if r["status"] in ("rejected", "ok", "exempt-copy-payload"):
            continue
        J.stream("sweep")["accepted"] -= 1   # counted again by judge_content
        judge_content(J, "sweep", c, c["sql"], r, origin=c["origin"])
    nmut = 0
    for stream, cases in rtlib.mutation_streams(run):
        res = run_bin_parallel(PKG, ["splice"], cases, pkg=PKG)
        nmut += len(cases)
        shown = 0
        for c, r in zip(cases, res):
            st = J.stream(stream)
            st["cases"] += 1
            if r["status"] != "accepted":
                st["rejected_or_no_site"] += 1
                continue
            judge_content(J, stream, c, r["mutated"], r["content"],
                          origin={"sql": c["sql"], "expr": c["expr"], "seed": c["seed"], "sites": c.get("sites"), "paren": c.get("paren", True)})
            if r["content"].get("n_content"):
                nontrivial.add((c["dialect"], r["mutated"]))
            if shown < 2 and r["content"]["status"] == "ok":
                shown += 1
                run.sample({"stream": stream, "expr": c["expr"], "dialect": c["dialect"], "mutated": r["mutated"][:300], "content_tokens": r["content"].get("n_content")})
    acc = sum(s["accepted"] - s["exempt"] for s in J.stats.values())
    run.add_eval(acc, len(nontrivial))
    J.finish()
    run.notes["outside_model"]["content_tokens_compared"] = J.content_tokens
    run.notes["outside_model"]["noise_words"] = {"global": sorted(rtlib.NOISE_GLOBAL), "by_kind": {k: sorted(v) for k, v in rtlib.NOISE_BY_KIND.items()},
                                                 "pseudo_keywords": sorted(rtlib.PSEUDO_KEYWORDS)}
    log(f"[C05] corpus+pair cases {n1}, mutation cases {nmut}, evaluated {acc}, failure keys {dict(J.by_key)}")


def replay(path):
    r = json.load(open(path))
    print(json.dumps(r, indent=1, ensure_ascii=False))
    if "input" in r and "dialect" in r and r.get("input") is not None:
        out = rtlib.replay_case(PROP, r)
        print("implementation now (content):", json.dumps(out["content"], ensure_ascii=False))
        print("implementation now (roundtrip):", json.dumps(out["roundtrip"], ensure_ascii=False))
    return 0
