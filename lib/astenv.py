"""Shared by C16 and C17: the type environment of the AST (translator harness/astx astx-env ->
coq/gen/TypeEnv.v) and the rendering of dumped values / JSON documents as Coq terms."""
import json
import os
import re
from common import *

PRIMS = {"bool": "PBool", "u8": "(PUInt 8)", "u16": "(PUInt 16)", "u32": "(PUInt 32)", "u64": "(PUInt 64)",
         "i8": "(PSInt 8)", "i16": "(PSInt 16)", "i32": "(PSInt 32)", "i64": "(PSInt 64)",
         "char": "PChar", "String": "PStr", "unit": "PUnit"}
TRAITS = ["Visit", "VisitMut", "Serialize", "Deserialize"]

_env_cache = {}


def translate(repo=None):
    """Run the translator on the current tree."""
    repo = repo or REPO
    if repo not in _env_cache:
        _env_cache[repo] = run_bin("astx-env", [repo], pkg="astx")[0]
    return _env_cache[repo]


def ty_text(t):
    if "prim" in t:
        return t["prim"] if t["prim"] != "unit" else "()"
    if "opt" in t:
        return "Option<%s>" % ty_text(t["opt"])
    if "vec" in t:
        return "Vec<%s>" % ty_text(t["vec"])
    if "box" in t:
        return "Box<%s>" % ty_text(t["box"])
    if "tuple" in t:
        return "(%s)" % ",".join(ty_text(x) for x in t["tuple"])
    if "named" in t:
        return t["named"] + ("<%s>" % ",".join(ty_text(x) for x in t["args"]) if t.get("args") else "")
    if "param" in t:
        return t["param"]
    return "?" + t.get("opaque", "")


def subst(t, m):
    if "param" in t:
        return m.get(t["param"], {"opaque": "unbound parameter " + t["param"]})
    if "opt" in t:
        return {"opt": subst(t["opt"], m)}
    if "vec" in t:
        return {"vec": subst(t["vec"], m)}
    if "box" in t:
        return {"box": subst(t["box"], m)}
    if "tuple" in t:
        return {"tuple": [subst(x, m) for x in t["tuple"]]}
    if "named" in t:
        return {"named": t["named"], "args": [subst(x, m) for x in t.get("args", [])]}
    return t


class Env:
    """Monomorphised environment: decls keyed by instance name (`WrappedCollection<Vec<Ident>>`)."""

    def __init__(self, raw):
        self.raw = raw
        self.obligations = list(raw["obligations"])
        self.generic = {}
        self.aliases = {}
        self.decls = {}     # key -> decl dict (monomorphic)
        self.order = []
        by_name = {}
        for t in raw["types"]:
            if t["kind"] == "alias":
                self.aliases[t["name"]] = t
                continue
            if t["name"] in by_name:
                self.obligations.append({"key": "duplicate-type-name::" + t["name"], "what":
                                         "two declarations named %s (%s, %s): types are identified by their last path segment"
                                         % (t["name"], by_name[t["name"]]["file"], t["file"])})
                continue
            by_name[t["name"]] = t
        self.by_name = by_name
        # manual impls by base type name
        self.manual = {}
        self.manual_other = []
        for m in raw["manual_impls"]:
            st = m["self_ty"]
            if "named" in st and st["named"] in by_name:
                self.manual.setdefault(st["named"], []).append(m["trait"])
            else:
                self.manual_other.append((m["trait"], m["self"], m["via"]))
        for t in raw["types"]:
            if t["kind"] == "alias" or by_name.get(t["name"]) is not t:
                continue
            if t["generics"]:
                self.generic[t["name"]] = t
            else:
                self._add(t["name"], t, {})
        # instantiate generics on demand
        todo = list(self.order)
        while todo:
            k = todo.pop()
            for f in self.fields_of(self.decls[k]):
                todo.extend(self._instantiate(f["ty"]))

    def _resolve_alias(self, t):
        seen = 0
        while "named" in t and t["named"] in self.aliases and seen < 20:
            a = self.aliases[t["named"]]
            m = dict(zip(a["generics"], t.get("args", [])))
            t = subst(a["target"], m)
            seen += 1
        return t

    def _norm(self, t):
        """resolve aliases everywhere and turn `named+args` into instance keys"""
        t = self._resolve_alias(t)
        for k in ("opt", "vec", "box"):
            if k in t:
                return {k: self._norm(t[k])}
        if "tuple" in t:
            return {"tuple": [self._norm(x) for x in t["tuple"]]}
        if "named" in t:
            args = [self._norm(x) for x in t.get("args", [])]
            return {"named": t["named"], "args": args}
        return t

    def _add(self, key, t, m):
        d = {"key": key, "name": t["name"], "kind": t["kind"], "file": t["file"], "derives": t["derives"],
             "visit_with": t["visit_with"], "serde_attrs": t["serde_attrs"],
             "manual": sorted(set(self.manual.get(t["name"], [])))}

        def fields(fs):
            return {"style": fs["style"], "fields": [
                {"name": f["name"], "ty": self._norm(subst(f["ty"], m)), "visit_with": f["visit_with"],
                 "serde_attrs": f["serde_attrs"]} for f in fs["fields"]]}
        if t["kind"] == "struct":
            d["fields"] = fields(t["fields"])
        else:
            d["variants"] = [{"name": v["name"], "fields": fields(v["fields"]), "serde_attrs": v["serde_attrs"]}
                             for v in t["variants"]]
        self.decls[key] = d
        self.order.append(key)

    def _instantiate(self, t):
        new = []
        for k in ("opt", "vec", "box"):
            if k in t:
                return self._instantiate(t[k])
        if "tuple" in t:
            for x in t["tuple"]:
                new += self._instantiate(x)
            return new
        if "named" in t:
            for x in t.get("args", []):
                new += self._instantiate(x)
            if t.get("args"):
                key = ty_text(t)
                g = self.generic.get(t["named"])
                if g is None:
                    if not any(o["key"] == "generic-args::" + key for o in self.obligations):
                        self.obligations.append({"key": "generic-args::" + key, "what":
                                                 "type arguments on %s, which is not a generic declaration of the scanned files" % key})
                elif key not in self.decls and len(g["generics"]) == len(t["args"]):
                    self._add(key, g, dict(zip(g["generics"], t["args"])))
                    new.append(key)
        return new

    @staticmethod
    def fields_of(d):
        if d["kind"] == "struct":
            return list(d["fields"]["fields"])
        return [f for v in d["variants"] for f in v["fields"]["fields"]]

    def key_of(self, t):
        return ty_text(t) if t.get("args") else t["named"]

    # ---------------------------------------------------------------- Coq rendering
    def coq_ty(self, t):
        if "prim" in t:
            p = PRIMS.get(t["prim"])
            return "(TPrim %s)" % p if p else "(TOpaque %s)" % coq_str(t["prim"])
        if "opt" in t:
            return "(TOpt %s)" % self.coq_ty(t["opt"])
        if "vec" in t:
            return "(TVec %s)" % self.coq_ty(t["vec"])
        if "box" in t:
            return "(TBox %s)" % self.coq_ty(t["box"])
        if "tuple" in t:
            return "(TTuple [%s])" % "; ".join(self.coq_ty(x) for x in t["tuple"])
        if "named" in t:
            return "(TNamed %s)" % coq_str(self.key_of(t))
        return "(TOpaque %s)" % coq_str(ty_text(t))

    def coq_fields(self, fs):
        def fld(f):
            return "mkField %s %s %s %s" % (coq_str(f["name"] or ""), self.coq_ty(f["ty"]),
                                            coq_opt(f["visit_with"], coq_str), coq_strs(f["serde_attrs"]))
        if fs["style"] == "unit":
            return "FUnit"
        body = "[" + ";\n      ".join(fld(f) for f in fs["fields"]) + "]"
        return "(%s %s)" % ("FTuple" if fs["style"] == "tuple" else "FNamed", body)

    def coq_decl(self, d):
        if d["kind"] == "struct":
            body = "(BStruct %s)" % self.coq_fields(d["fields"])
        else:
            body = "(BEnum [\n    " + ";\n    ".join(
                "mkVariant %s %s %s" % (coq_str(v["name"]), self.coq_fields(v["fields"]), coq_strs(v["serde_attrs"]))
                for v in d["variants"]) + "])"
        ds = d["derives"]
        return "(%s, mkDecl %s\n   %s\n   %s %s %s %s %s %s %s)" % (
            coq_str(d["key"]), coq_str(d["name"]), body, coq_opt(d["visit_with"], coq_str), coq_strs(d["serde_attrs"]),
            coq_bool("Serialize" in ds), coq_bool("Deserialize" in ds), coq_bool("Visit" in ds), coq_bool("VisitMut" in ds),
            coq_strs(d["manual"]))

    def coq_file(self):
        v = ["(* GENERATED on every run by lib/astenv.py from harness/astx (astx-env): the type declarations of",
             "   src/ast/**/*.rs, src/tokenizer.rs, src/keywords.rs of the current /repo tree. *)",
             "Require Import SqlV.Base SqlV.Univ.",
             "Definition type_env_full : env := ["]
        v.append(";\n".join("  " + self.coq_decl(self.decls[k]) for k in self.order))
        v.append("].")
        v.append("(* manual impls of the four traits for types that are not declarations of the environment *)")
        v.append("Definition manual_other : list (str * str) := [" + "; ".join(
            "(%s, %s)" % (coq_str(tr), coq_str(st)) for tr, st, _ in self.manual_other) + "].")
        v.append("Definition translator_obligations : list str := " + coq_strs([o["key"] for o in self.obligations]) + ".")
        return "\n".join(v) + "\n"


def load_env():
    return Env(translate())


def gen_type_env():
    e = load_env()
    write_if_changed(os.path.join(GEN, "TypeEnv.v"), e.coq_file())
    return e


# ---------------------------------------------------------------- values and documents as Coq terms

class Interner:
    """Names (type, variant, field, object keys) are defined once in the case-file header."""

    def __init__(self):
        self.ids = {}

    def name(self, s):
        i = self.ids.get(s)
        if i is None:
            i = self.ids[s] = "n%d" % len(self.ids)
        return i

    def header(self):
        return "\n".join("Definition %s : list N := %s." % (i, coq_str(s)) for s, i in self.ids.items())


SHAPES = {"u": "SUnit", "n": "SNewtype", "t": "STuple", "s": "SNamed"}


def coq_sval(d, I):
    k = d[0]
    if k == "b":
        return "(VBool %s)" % coq_bool(d[1])
    if k == "n":
        n = int(d[1])
        return "(VNum %d)" % n if n >= 0 else "(VNum (%d))" % n
    if k == "c":
        return "(VChar %d)" % d[1]
    if k == "s":
        return "(VStr %s)" % coq_str(d[1])
    if k == "u":
        return "VUnit"
    if k == "none":
        return "VNone"
    if k == "some":
        return "(VSome %s)" % coq_sval(d[1], I)
    if k == "seq":
        return "(VSeq [%s])" % ";".join(coq_sval(x, I) for x in d[1])
    if k == "tup":
        return "(VTuple [%s])" % ";".join(coq_sval(x, I) for x in d[1])
    if k == "st":
        return "(VStruct %s %s [%s])" % (I.name(d[1]), SHAPES[d[2]],
                                         ";".join("(%s,%s)" % (I.name(a[0]), coq_sval(a[1], I)) for a in d[3]))
    if k == "en":
        return "(VEnum %s %s %s [%s])" % (I.name(d[1]), I.name(d[2]), SHAPES[d[3]],
                                          ";".join("(%s,%s)" % (I.name(a[0]), coq_sval(a[1], I)) for a in d[4]))
    return "(VOpaque %s)" % coq_str(str(d[1]) if len(d) > 1 else "?")


def coq_json(j, I):
    if j is None:
        return "JNull"
    if isinstance(j, bool):
        return "(JBool %s)" % coq_bool(j)
    if isinstance(j, int):
        return "(JNum %d)" % j if j >= 0 else "(JNum (%d))" % j
    if isinstance(j, float):
        return "(JStr %s)" % coq_str("<float %r>" % j)
    if isinstance(j, str):
        return "(JStr %s)" % coq_str(j)
    if isinstance(j, list):
        return "(JArr [%s])" % ";".join(coq_json(x, I) for x in j)
    return "(JObj [%s])" % ";".join("(%s,%s)" % (I.name(k), coq_json(x, I)) for k, x in j.items())


def drop_nulls(j):
    if isinstance(j, dict):
        return {k: drop_nulls(x) for k, x in j.items() if x is not None}
    if isinstance(j, list):
        return [drop_nulls(x) for x in j]
    return j


def walk_dump(d, f, path=()):
    """pre-order traversal of a dump; f(node, path, parent, key)"""
    stack = [(d, path, None, None)]
    while stack:
        n, p, par, key = stack.pop()
        f(n, p, par, key)
        k = n[0]
        ch = []
        if k == "some":
            ch = [(n[1], p + (0,), n, None)]
        elif k in ("seq", "tup"):
            ch = [(x, p + (i,), n, None) for i, x in enumerate(n[1])]
        elif k == "st":
            ch = [(a[1], p + (i,), n, a[0]) for i, a in enumerate(n[3])]
        elif k == "en":
            ch = [(a[1], p + (i,), n, a[0]) for i, a in enumerate(n[4])]
        stack.extend(reversed(ch))


def dump_types(d):
    """set of (type name, variant or None) occurring in a dump"""
    out = set()

    def f(n, p, par, key):
        if n[0] == "st":
            out.add((n[1], None))
        elif n[0] == "en":
            out.add((n[1], n[2]))
    walk_dump(d, f)
    return out


# ---------------------------------------------------------------- fingerprint (= Sv::hash, Univ.sv_hash)

HP = 2147483647


def _mix(a, b):
    return ((a % HP) * 1000003 + (b % HP) + 7) % HP


def _hstr(s):
    a = 17
    for c in s:
        a = _mix(a, ord(c))
    return a


def sv_hash(d):
    k = d[0]
    if k == "b":
        return _mix(1, 1 if d[1] else 0)
    if k == "n":
        n = int(d[1])
        return _mix(2, n % HP) if n >= 0 else _mix(3, (-n) % HP)
    if k == "c":
        return _mix(4, d[1])
    if k == "s":
        return _mix(5, _hstr(d[1]))
    if k == "u":
        return 6
    if k == "none":
        return 7
    if k == "some":
        return _mix(8, sv_hash(d[1]))
    if k in ("seq", "tup"):
        a = 9 if k == "seq" else 10
        for x in d[1]:
            a = _mix(a, sv_hash(x))
        return a
    if k == "st":
        a = _mix(11, _hstr(d[1]))
        for kk, x in d[3]:
            a = _mix(a, _mix(_hstr(kk), sv_hash(x)))
        return a
    if k == "en":
        a = _mix(_mix(12, _hstr(d[1])), _hstr(d[2]))
        for kk, x in d[4]:
            a = _mix(a, _mix(_hstr(kk), sv_hash(x)))
        return a
    return _mix(13, _hstr(str(d[1]) if len(d) > 1 else ""))
