"""Shared by C11/C12/C13: generation of operation-sequence cases for the parser-interface
model (coq/theories/Machine.v), encoding of implementation results as Coq terms, inventories
(harness/machx inv) and the pinned exception lists (coq/theories/Pinned.v)."""
import json
import os
import re
from common import *

PKG = "machx"
HEADER = ("Require Import SqlV.Base SqlV.Machine SqlVGen.KeywordTable SqlVGen.MachineVariant.\n"
          "Definition W (v k : string) := TWord (s2l v) None (s2l k).\n"
          "Definition Wq (v : string) (q : N) := TWord (s2l v) (Some q) (s2l \"NoKeyword\").\n"
          "Definition T (t : token) (l c : N) := {| tok := t; line := l; col := c |}.\n"
          "Definition D0 : dial := mk_dial false false reserved_for_column_alias.\n"
          "Definition chk (c : list twl * bool * nat * list prog * list (outcome val)) : bool :=\n"
          "  match c with (ts, tcb, lim, ops, ex) => outcomes_eqb (run_ops maybe_reraises_limit 40 D0 ops (init_state ts tcb lim)) ex end.\n")

IDENTS = ["a", "b", "c", "x1"]
KEYWORDS = ["FROM", "WHERE", "ON", "AND", "NO", "CHAIN", "WORK", "TRANSACTION", "COMMIT", "END", "GROUP", "BY",
            "HAVING", "LIMIT", "AS", "UNION"]
# words of the block probe's header; not in the random vocabulary (CREATE and BEGIN start statements
# outside the COMMIT/END fragment: harness/machx discards a case whose statement probe meets one)
BLOCK_KEYWORDS = ["CREATE", "PROCEDURE", "BEGIN"]
PUNCT = {"comma": "PComma", "semi": "PSemi", "lparen": "PLParen", "rparen": "PRParen", "lbracket": "PLBracket",
         "rbracket": "PRBracket", "lbrace": "PLBrace", "rbrace": "PRBrace", "eq": "PEq", "period": "PPeriod",
         "colon": "PColon", "mul": "PMul", "plus": "PPlus", "minus": "PMinus"}
WS = {"space": 0, "newline": 1, "tab": 2}


def cstring(s):
    """Coq [string] literal when possible (fast to parse)."""
    if all(32 <= ord(c) < 127 and c != '"' for c in s):
        return '"%s"' % s
    return None


def coq_token(t):
    k = t["k"]
    if k == "eof":
        return "TEOF"
    if k in WS:
        return "(TWs %d)" % WS[k]
    if k == "word":
        kw = t.get("kw") or ("NoKeyword" if t.get("q") else (t["v"].upper() if t["v"].upper() in KEYWORDS + BLOCK_KEYWORDS else "NoKeyword"))
        v = cstring(t["v"])
        if t.get("q"):
            if v is not None:
                return "(Wq %s %d)" % (v, ord(t["q"]))
            return "(TWord %s (Some %d) (s2l \"NoKeyword\"))" % (coq_str(t["v"]), ord(t["q"]))
        if v is not None:
            return "(W %s \"%s\")" % (v, kw)
        return "(TWord %s None (s2l \"%s\"))" % (coq_str(t["v"]), kw)
    if k == "num":
        return "(TNum %s %s)" % (coq_str(t["v"]), coq_bool(t.get("l", False)))
    if k == "sq":
        return "(TSQ %s)" % coq_str(t["v"])
    if k in PUNCT:
        return "(TP %s)" % PUNCT[k]
    raise ValueError("token outside the model's fragment: %r" % (t,))


def coq_twl(t):
    return "(T %s %d %d)" % (coq_token(t["tok"]), t["line"], t["col"])


def coq_list(xs):
    return "[" + "; ".join(xs) + "]"


def coq_prog(p):
    op = p[0]
    if op == "next":
        return "PNext"
    if op == "peek":
        return "(PPeekNth %d)" % p[1]
    if op == "peek0":
        return "(PPeekNth 0)"
    if op == "prev":
        return "PPrev"
    if op == "next_ns":
        return "PNextNoSkip"
    if op == "peek_ns":
        return "(PPeekNoSkip %d)" % p[1]
    if op == "kw":
        return "(PKw %s)" % coq_str(p[1])
    if op == "kws":
        return "(PKws %s)" % coq_strs(p[1])
    if op == "oneof":
        return "(POneOf %s)" % coq_strs(p[1])
    if op == "expect_kw":
        return "(PExpectKw %s)" % coq_str(p[1])
    if op == "consume":
        return "(PConsume %s)" % coq_token(p[1])
    if op == "consumes":
        return "(PConsumes %s)" % coq_list([coq_token(t) for t in p[1]])
    if op == "expect_tok":
        return "(PExpectTok %s)" % coq_token(p[1])
    if op == "fail":
        return "(PFail %s)" % {"syntax": '(Syntax (s2l "boom"))', "lex": '(Lex (s2l "lexboom"))', "limit": "Limit"}[p[1]]
    if op == "expected":
        return "(PExpected %s)" % coq_str(p[1])
    if op == "seq":
        return "(PSeq %s %s)" % (coq_prog(p[1]), coq_prog(p[2]))
    if op == "if":
        return "(PIf %s %s %s)" % (coq_prog(p[1]), coq_prog(p[2]), coq_prog(p[3]))
    if op == "maybe":
        return "(PMaybe %s)" % coq_prog(p[1])
    if op == "comma":
        return "(PCommaSep %s)" % coq_prog(p[1])
    if op == "comma0":
        return "(PCommaSep0 %s %s)" % (coq_prog(p[1]), coq_token(p[2]))
    if op == "kwsep":
        return "(PKwSep %s %s)" % (coq_str(p[1]), coq_prog(p[2]))
    if op == "paren":
        return "(PParen %s)" % coq_prog(p[1])
    if op == "stmt":
        return "PStmt"
    if op == "stmts":
        return "PStmts"
    if op == "word":
        return "PWord"
    if op == "block":
        return "PBlock"
    raise ValueError(op)


def coq_val(v):
    if "u" in v:
        return "VUnit"
    if "b" in v:
        return "(VBool %s)" % coq_bool(v["b"])
    if "t" in v:
        return "(VTok %s)" % coq_twl(v["t"])
    if "o" in v:
        return "(VOpt None)" if v["o"] is None else "(VOpt (Some %s))" % coq_val(v["o"])
    if "l" in v:
        return "(VList %s)" % coq_list([coq_val(x) for x in v["l"]])
    if "kw" in v:
        return "(VKw %s)" % coq_str(v["kw"])
    raise ValueError(v)


def coq_outcome(r):
    if "panic" in r:
        return "Panic"
    if "err" in r:
        if r["err"] == "limit":
            return "(Err Limit)"
        return "(Err (%s %s))" % ("Syntax" if r["err"] == "syntax" else "Lex", coq_str(r["msg"]))
    return "(Ok %s)" % coq_val(r)


# ------------------------------------------------------------------ case generation

def rand_token(rng, ws_p=0.35):
    x = rng.random()
    if x < ws_p:
        return {"k": rng.choice(["space", "space", "newline", "tab"])}
    x = rng.random()
    if x < 0.30:
        if rng.random() < 0.08:
            return {"k": "word", "v": rng.choice(IDENTS + ["FROM", "c d"]), "q": rng.choice(['"', "`", "["])}
        return {"k": "word", "v": rng.choice(IDENTS + [k if rng.random() < 0.6 else k.lower() for k in KEYWORDS]), "q": None}
    if x < 0.48:
        return {"k": "comma"}
    if x < 0.55:
        return {"k": "semi"}
    if x < 0.60:
        return {"k": "eof"}
    if x < 0.66:
        return {"k": "lparen"}
    if x < 0.74:
        return {"k": "rparen"}
    if x < 0.84:
        return {"k": rng.choice(["rbracket", "rbrace", "lbracket", "lbrace", "eq", "period", "colon", "mul", "plus", "minus"])}
    if x < 0.93:
        return {"k": "num", "v": str(rng.randrange(0, 1000)), "l": rng.random() < 0.1}
    return {"k": "sq", "v": rng.choice(["s", "it's", ""])}


def rand_cmp_token(rng):
    return rng.choice([{"k": "comma"}, {"k": "comma"}, {"k": "semi"}, {"k": "rparen"}, {"k": "lparen"}, {"k": "eof"},
                       {"k": "word", "v": "a", "q": None}, {"k": "word", "v": "FROM", "q": None}, {"k": "eq"},
                       {"k": "num", "v": "1", "l": False}, {"k": "rbracket"}, {"k": "space"}])


def rand_prog(rng, depth, elem=False):
    """`elem`: inside a list/maybe closure (no bare prev_token there: the Rust loop could spin)."""
    leafs = ["next", "peek", "kw", "kws", "oneof", "expect_kw", "consume", "consumes", "expect_tok", "word", "word",
             "expected", "next_ns", "peek_ns", "stmt", "fail", "block"]
    if not elem:
        leafs += ["prev", "prev", "stmts"]
    comb = ["seq", "if", "maybe", "maybe", "comma", "comma", "comma0", "kwsep", "paren", "nextprev"]
    op = rng.choice(leafs if depth <= 0 or rng.random() < 0.45 else comb)
    kws = lambda: rng.choice(KEYWORDS)
    if op in ("next", "prev", "next_ns", "stmt", "stmts", "word", "block"):
        return [op]
    if op in ("peek", "peek_ns"):
        return [op, rng.randrange(0, 4)]
    if op in ("kw", "expect_kw"):
        return [op, kws()]
    if op in ("kws", "oneof"):
        return [op, [kws() for _ in range(rng.randrange(0, 4))]]
    if op in ("consume", "expect_tok"):
        return [op, rand_cmp_token(rng)]
    if op == "consumes":
        return [op, [rand_cmp_token(rng) for _ in range(rng.randrange(0, 3))]]
    if op == "fail":
        return [op, rng.choice(["syntax", "lex", "limit", "limit"])]
    if op == "expected":
        return [op, rng.choice(["thing", "an expression", ""])]
    if op == "nextprev":
        return ["seq", ["next"], ["prev"]]
    if op == "seq":
        return [op, rand_prog(rng, depth - 1, elem), rand_prog(rng, depth - 1, elem)]
    if op == "if":
        c = rng.choice([["kw", kws()], ["consume", rand_cmp_token(rng)], ["maybe", rand_prog(rng, depth - 1, True)],
                        ["oneof", [kws(), kws()]]])
        return [op, c, rand_prog(rng, depth - 1, elem), rand_prog(rng, depth - 1, elem)]
    if op == "maybe":
        return [op, rand_prog(rng, depth - 1, True)]
    if op == "comma":
        return [op, rand_prog(rng, depth - 1, True)]
    if op == "comma0":
        return [op, rand_prog(rng, depth - 1, True), rng.choice([{"k": "rparen"}, {"k": "rparen"}, {"k": "rbracket"}, {"k": "eof"}, {"k": "semi"}])]
    if op == "kwsep":
        return [op, rng.choice(["AND", "UNION", "BY"]), rand_prog(rng, depth - 1, True)]
    if op == "paren":
        return [op, rand_prog(rng, depth - 1, elem)]
    raise ValueError(op)


def with_locs(rng, toks):
    out = []
    for i, t in enumerate(toks):
        line = 0 if rng.random() < 0.04 else 1 + i // 5
        out.append({"tok": t, "line": line, "col": 1 + i % 5 + (0 if line else 7)})
    return out


def _w(v, q=None):
    return {"k": "word", "v": v, "q": q}


def block_header(rng, name=None):
    """CREATE PROCEDURE <name> AS BEGIN (random ASCII case of the keywords)."""
    rc = lambda k: k if rng.random() < 0.7 else k.lower()
    return [_w(rc("CREATE")), _w(rc("PROCEDURE")), name or _w(rng.choice(IDENTS)), _w(rc("AS")), _w(rc("BEGIN"))]


def lay_out(rng, toks, layout):
    """0: tokens as they are; 1: one blank between any two; 2: random whitespace tokens (also leading)."""
    if layout == 0:
        return list(toks)
    out = []
    for i, t in enumerate(toks):
        if layout == 1:
            if i:
                out.append({"k": "space"})
        else:
            for _ in range(rng.choice([0, 1, 1, 2])):
                out.append({"k": rng.choice(["space", "newline", "tab"])})
        out.append(t)
    return out


# bodies of BEGIN .. END blocks over the COMMIT/END fragment, the closing END included where there is one
BLOCK_BODIES = [
    "COMMIT ; COMMIT END", "COMMIT END", "END", "COMMIT ; END END", "COMMIT", "COMMIT ;", "", "COMMIT COMMIT END",
    "; ; END", "; COMMIT ; ; END ; COMMIT", "COMMIT END END", "COMMIT ; END", "END END", "END ; END", "END END END",
    "COMMIT AND CHAIN END", "COMMIT WORK AND NO CHAIN ; END TRANSACTION END", "COMMIT AND END", "END AND CHAIN END ; COMMIT",
    "COMMIT ; COMMIT ; COMMIT ; COMMIT END COMMIT", "a END", "COMMIT , END", "COMMIT ; 1 END", "COMMIT END ; COMMIT",
    "COMMIT eof END", "COMMIT ; eof",
    # outside the fragment (discarded by the driver): a nested procedure, BEGIN [TRANSACTION]
    "CREATE PROCEDURE b AS BEGIN COMMIT END END", "COMMIT ; CREATE PROCEDURE b AS BEGIN COMMIT END", "COMMIT ; BEGIN END",
]


def body_tokens(text):
    m = {";": {"k": "semi"}, ",": {"k": "comma"}, "eof": {"k": "eof"}, "(": {"k": "lparen"}}
    return [m[x] if x in m else ({"k": "num", "v": x, "l": False} if x.isdigit() else _w(x)) for x in text.split()]


BLOCK_OPS = [
    [["block"], ["peek_ns", 0], ["stmt"], ["peek_ns", 0]],
    [["maybe", ["block"]], ["peek_ns", 0], ["block"], ["peek_ns", 0]],
    [["block"], ["block"], ["stmts"], ["peek_ns", 0]],
    [["comma", ["block"]], ["peek_ns", 0], ["next"]],
    [["if", ["maybe", ["block"]], ["stmt"], ["word"]], ["peek_ns", 0], ["block"]],
    [["block"], ["prev"], ["peek_ns", 0], ["next"], ["expect_kw", "END"]],
]


def directed_block_cases(rng):
    """The block probe (CREATE PROCEDURE x AS BEGIN <body>): every body shape x whitespace layout x
    operation context, the depth limit cycling through 0/1/2/3/50; headers that must NOT be taken."""
    cases = []
    n = 0
    for body in BLOCK_BODIES:
        for layout in (0, 2):
            for ops in BLOCK_OPS:
                lim = (0, 1, 2, 3, 50)[n % 5]
                n += 1
                tk = lay_out(rng, block_header(rng) + body_tokens(body), layout)
                cases.append({"toks": with_locs(rng, tk), "tc": False, "limit": lim, "ops": ops})
    # a token in front of the header (the probe starts at the cursor, not at the start of the vector)
    for body in BLOCK_BODIES[:8]:
        tk = lay_out(rng, [{"k": "semi"}] + block_header(rng) + body_tokens(body), 1)
        cases.append({"toks": with_locs(rng, tk), "tc": False, "limit": 50, "ops": [["block"], ["next"], ["block"], ["peek_ns", 0], ["stmt"]]})
    # not the header: the probe is a no-op and leaves the cursor where it was
    h = lambda *ws: [x if isinstance(x, dict) else _w(x) for x in ws]
    near = [h("CREATE", "PROCEDURE", _w("a", '"'), "AS", "BEGIN"), h("CREATE", "PROCEDURE", "FROM", "AS", "BEGIN"), h("CREATE", "PROCEDURE", "a", "BEGIN"),
            h("CREATE", "PROCEDURE", "a", {"k": "period"}, "b", "AS", "BEGIN"), h("CREATE", "PROCEDURE", "a", {"k": "lparen"}, {"k": "rparen"}, "AS", "BEGIN"),
            h("CREATE", "PROCEDURE", "a", "AS"), h("CREATE", "PROCEDURE"), h("CREATE"), h("PROCEDURE", "a", "AS", "BEGIN"),
            h("CREATE", "PROCEDURE", "a", "AS", "COMMIT"), h("CREATE", "PROCEDURE", "a", "AS", {"k": "eof"}, "BEGIN"), h("CREATE", "PROCEDURE", "a", "AS", _w("BEGIN", "`")),
            h("CREATE", "a", "AS", "BEGIN"), h("COMMIT", "PROCEDURE", "a", "AS", "BEGIN"), h("CREATE", "PROCEDURE", {"k": "num", "v": "1", "l": False}, "AS", "BEGIN")]
    for hd in near:
        for layout in (0, 2):
            tk = lay_out(rng, hd + body_tokens("COMMIT END"), layout)
            cases.append({"toks": with_locs(rng, tk), "tc": False, "limit": 50, "ops": [["block"], ["peek_ns", 0], ["maybe", ["block"]], ["next"], ["block"], ["peek_ns", 0]]})
    return cases


def rand_block_tokens(rng):
    """A header (now and then damaged) and a random body over the fragment's vocabulary."""
    name = None
    x = rng.random()
    if x < 0.05:
        name = _w(rng.choice(IDENTS), rng.choice(['"', "`", "["]))
    elif x < 0.10:
        name = _w(rng.choice(KEYWORDS))
    hd = block_header(rng, name)
    if rng.random() < 0.06:
        del hd[rng.randrange(len(hd))]
    body = []
    for _ in range(rng.choice([0, 1, 2, 3, 4, 6, 9])):
        y = rng.random()
        if y < 0.40:
            body.append(_w(rng.choice(["COMMIT", "COMMIT", "commit", "END", "END", "end"])))
        elif y < 0.62:
            body.append({"k": "semi"})
        elif y < 0.80:
            body.append(_w(rng.choice(["WORK", "TRANSACTION", "AND", "NO", "CHAIN", "AND", "CHAIN"])))
        elif y < 0.83:
            body.append(_w(rng.choice(["CREATE", "BEGIN", "PROCEDURE"])))
        else:
            body.append(rand_token(rng, 0.0))
    if rng.random() < 0.7:
        body.append(_w("END"))
    body += [rand_token(rng, 0.0) for _ in range(rng.choice([0, 0, 1, 2]))]
    lead = [rng.choice([{"k": "semi"}, _w("a"), {"k": "comma"}])] if rng.random() < 0.15 else []
    return lay_out(rng, lead + hd + body, rng.choice([0, 1, 2, 2]))


def directed_cases(rng):
    """Hand-picked shapes: list ends with every terminator class, speculation with every error
    kind, the guard at the depths 0/1/2, the statement loop."""
    W = lambda v: {"k": "word", "v": v, "q": None}
    sp = {"k": "space"}
    C = {"k": "comma"}
    cases = []
    terms = [{"k": "rparen"}, {"k": "semi"}, {"k": "eof"}, {"k": "rbracket"}, {"k": "rbrace"}, W("FROM"), W("WHERE"), W("GROUP"),
             W("HAVING"), W("LIMIT"), W("ON"), W("UNION"), W("END"), W("from"), W("a"), {"k": "lparen"}, {"k": "num", "v": "1", "l": False},
             {"k": "word", "v": "FROM", "q": '"'}, W("AS"), W("BY"), W("COMMIT")]
    for t in terms:
        for tcb in (False, True):
            for lay in range(3):
                toks = [W("a"), C, sp, W("b")] if lay == 0 else ([sp, W("a"), sp, C, W("b"), sp] if lay == 1 else [W("a")])
                for trail in (False, True):
                    tk = list(toks) + ([C, sp] if trail else []) + [t, sp, W("c")]
                    ops = [rng.choice([["comma", ["word"]], ["comma0", ["word"], {"k": "rparen"}], ["comma0", ["word"], t if t["k"] != "word" else {"k": "rparen"}],
                                       ["paren", ["comma", ["word"]]], ["maybe", ["comma", ["word"]]], ["kwsep", "AND", ["comma", ["word"]]]]),
                           ["peek_ns", 0], ["next"], ["prev"], ["peek_ns", 0]]
                    cases.append({"toks": with_locs(rng, tk), "tc": tcb, "limit": 50, "ops": ops})
    # comma0 corner: [Comma, end] with/without option, empty list
    for tcb in (False, True):
        for tk in ([{"k": "rparen"}], [C, {"k": "rparen"}], [sp, C, sp, {"k": "rparen"}], [C, C, {"k": "rparen"}], [], [C]):
            cases.append({"toks": with_locs(rng, tk), "tc": tcb, "limit": 50,
                          "ops": [["comma0", ["word"], {"k": "rparen"}], ["peek_ns", 0], ["comma0", ["word"], {"k": "eof"}], ["peek_ns", 0]]})
    # speculation with each error kind, index restoration, nesting
    for kind in ("syntax", "lex", "limit"):
        for body in (["fail", kind], ["seq", ["next"], ["fail", kind]], ["seq", ["next"], ["seq", ["next"], ["fail", kind]]],
                     ["comma", ["seq", ["word"], ["fail", kind]]], ["maybe", ["seq", ["next"], ["fail", kind]]],
                     ["paren", ["fail", kind]]):
            tk = [W("a"), sp, C, W("b"), {"k": "lparen"}, W("c")]
            cases.append({"toks": with_locs(rng, tk), "tc": False, "limit": 50,
                          "ops": [["maybe", body], ["peek_ns", 0], ["if", ["maybe", body], ["next"], ["peek", 1]], ["peek_ns", 0],
                                  ["comma", ["maybe", body]], ["peek_ns", 0]]})
    # the depth guard through parse_statement, at small limits, alone / in sequence / under speculation and lists
    for lim in (0, 1, 2, 3):
        for tk in ([W("COMMIT")], [W("COMMIT"), sp, W("AND"), W("NO"), W("CHAIN")], [W("commit"), W("WORK"), W("AND"), W("CHAIN"), {"k": "semi"}, W("END")],
                   [W("a")], [W("COMMIT"), W("AND"), W("a")], [{"k": "semi"}], [], [W("COMMIT"), C, W("COMMIT"), C, W("END"), W("TRANSACTION")],
                   [W("END"), {"k": "semi"}, {"k": "semi"}, sp, W("COMMIT"), W("END")], [W("COMMIT"), W("COMMIT")],
                   [{"k": "semi"}, W("COMMIT"), {"k": "semi"}, W("b")]):
            for ops in ([["stmt"], ["stmt"], ["stmt"], ["peek_ns", 0]],
                        [["maybe", ["stmt"]], ["peek_ns", 0], ["stmt"], ["maybe", ["stmt"]], ["peek_ns", 0]],
                        [["comma", ["stmt"]], ["peek_ns", 0], ["stmt"]],
                        [["if", ["maybe", ["stmt"]], ["next"], ["word"]], ["stmt"]],
                        [["stmts"], ["peek_ns", 0], ["stmt"]],
                        [["maybe", ["stmts"]], ["peek_ns", 0], ["stmts"]]):
                cases.append({"toks": with_locs(rng, tk), "tc": False, "limit": lim, "ops": ops})
    return cases + directed_block_cases(rng)


def random_cases(rng, n):
    cases = []
    for _ in range(n):
        ln = rng.choice([0, 1, 2, 3, 4, 6, 8, 10, 14])
        ws_p = rng.choice([0.1, 0.35, 0.6])
        toks = [rand_token(rng, ws_p) for _ in range(ln)]
        ops = [rand_prog(rng, rng.choice([0, 1, 2, 3])) for _ in range(rng.randrange(2, 8))]
        if rng.random() < 0.08:
            # a block header in the token vector and the block probe among the operations
            toks = rand_block_tokens(rng)
            blk = rng.choice([["block"], ["block"], ["maybe", ["block"]], ["comma", ["block"]], ["paren", ["block"]], ["seq", ["block"], ["stmt"]]])
            ops.insert(rng.choice([0, 0, 0, 1]) if ops else 0, blk)
        ops += [["peek_ns", 0], ["prev"], ["peek_ns", 0]]
        cases.append({"toks": with_locs(rng, toks), "tc": rng.random() < 0.5, "limit": rng.choice([0, 1, 2, 50]), "ops": ops})
    return cases


def nontrivial(case, res):
    """A case counts as non-trivial when at least one operation moved the cursor or failed:
    approximated by: some result is true / Some / a non-EOF token / an error."""
    s = json.dumps(res["res"])
    return ('"b": true' in s) or ('"err"' in s) or ('"k": "word"' in s) or ('"panic"' in s)


def maybe_variant():
    """Ask the implementation how maybe_parse treats the recursion-limit error."""
    pr = run_bin("machx", ["maybe_probe"], pkg=PKG)[0]
    reraises = pr["limit"]["result"] != "none"
    consistent = (pr["guarded_statement_at_limit_0"] != "none") == reraises
    return reraises, consistent, pr


def write_variant(reraises):
    write_if_changed(os.path.join(GEN, "MachineVariant.v"),
                     "(* GENERATED by ./check: how Parser::maybe_parse treats ParserError::RecursionLimitExceeded in the\n"
                     "   current /repo tree (machx maybe_probe). *)\n"
                     "Definition maybe_reraises_limit : bool := %s.\n" % coq_bool(reraises))


def correspondence(run, tag, n_random):
    """Primitive/combinator correspondence: implementation results vs Machine.denote, in the kernel VM.
    Returns (cases, results, bad indices or None)."""
    cases = directed_cases(run.rng) + random_cases(run.rng, n_random)
    res = run_bin_parallel("machx", ["prims"], cases, pkg=PKG)
    keep, terms = [], []
    discarded = 0
    for c, r in zip(cases, res):
        if r["status"] != "ok":
            discarded += 1
            continue
        try:
            term = "(%s, %s, %d%%nat, %s, %s)" % (coq_list([coq_twl(t) for t in r["toks"]]), coq_bool(c["tc"]), c["limit"],
                                              coq_list([coq_prog(p) for p in c["ops"]]), coq_list([coq_outcome(x) for x in r["res"]]))
        except ValueError:
            discarded += 1
            continue
        keep.append((c, r))
        terms.append(term)
    bad = run_coq_cases(tag, HEADER, terms, "chk", shard_size=max(200, (len(terms) + NCPU - 1) // NCPU),
                        per_case_type="(list twl * bool * nat * list prog * list (outcome val))")
    return keep, discarded, bad


# ------------------------------------------------------------------ inventories and pins

_inv = None


def inventory():
    global _inv
    if _inv is None:
        _inv = run_bin("machx", ["inv", REPO], pkg=PKG)[0]
    return _inv


def pinned(name):
    """Keys of a [Definition <name> : list string := [ ... ].] in coq/theories/Pinned.v."""
    src = strip_coq_comments(open(os.path.join(COQ, "theories", "Pinned.v")).read())
    m = re.search(r"Definition\s+%s\s*:\s*list string\s*:=\s*\[(.*?)\]\s*\." % re.escape(name), src, re.S)
    if not m:
        raise RuntimeError("Pinned.v has no list " + name)
    return re.findall(r'"([^"]*)"', m.group(1))


def coq_string_list(name, xs):
    return "Definition %s : list string := [\n%s\n]." % (name, ";\n".join('  "%s"' % x.replace('"', "'") for x in xs))
