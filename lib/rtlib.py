"""Implementation-side search shared by C01 (parse -> print -> parse fixpoint) and C05 (no content
token lost or invented): case streams for harness/rtx, and the mapping of every failure to a
stable root-cause key (`<statement kind or AST site>:<failure class>`)."""
import collections
import json
import os
import re
import common
from common import *

PKG = "rtx"
if os.environ.get("VERIF_RTX_BINDIR"):
    # mutation self-test: use an rtx binary built against a scratch copy of /repo
    # (VERIF_RTX_BINDIR = <scratch cargo target dir>/debug)
    _scratch = os.path.dirname(os.environ["VERIF_RTX_BINDIR"].rstrip("/"))
    _orig_target_dir = common.target_dir
    common.target_dir = lambda pkg: _scratch if pkg == PKG else _orig_target_dir(pkg)
    common._built.add(PKG)

DIALECTS = ["generic", "ansi", "bigquery", "clickhouse", "databricks", "duckdb", "hive", "mssql",
            "mysql", "postgresql", "redshift", "snowflake", "sqlite"]
MAX_REPLAY_PER_KEY = 10

# Expressions spliced (parenthesised) over a number or '..' literal of a corpus text.
EXPRS = [
    # operators of the core and around it
    "a + b * c", "a - b - c", "x - -y", "- -x", "- +x", "+ -x", "-(-x)", "NOT NOT p", "NOT a = b", "~ ~x", "@ @x", "|/ |/ x", "!! !!x",
    "- x ^ 2", "-x::INT", "a AND NOT b OR c", "a BETWEEN 1 AND 2 + 3", "a NOT BETWEEN x AND y AND z", "a NOT IN (1, 2, 3)", "a IS NOT NULL",
    "a IS NOT DISTINCT FROM b", "a LIKE 'x%' ESCAPE '!'", "a NOT ILIKE b", "a || 'x' || b", "a -> 'k' ->> 'j'", "a::INT::TEXT", "a % 2 = 0",
    "a <=> b", "a DIV b", "a = ANY(b)", "a AT TIME ZONE 'UTC'", "a COLLATE \"de_DE\"", "a [1]", "a[1][2]", "a.b.c", "(a, b)", "((a))",
    "a IS TRUE", "a IS NOT UNKNOWN", "a SIMILAR TO b", "a OVERLAPS b", "a <-> b", "a & b | c # d", "a << 2 >> 1", "x -> x + 1",
    # literals of every kind, quoted identifiers, placeholders
    "'plain'", "'it''s'", "'back\\\\slash'", "'a\\'b'", "\"dq\"", "\"d\"\"q\"", "`bq`", "[br]", "N'nat'", "X'AB'", "x'ab'", "B'01'", "b'bytes'",
    "E'esc\\n\\'q'", "U&'d\\0061t'", "$$dollar$$", "$t$x$t$", "R'raw\\d'", "r\"raw\"", "'''tri'''", "\"\"\"tri\"\"\"", "B'''tb'''", "1.5e3", "0x1F", ".5", "1.",
    "123456789012345678901234567890", "007", "1L", "?", "$1", ":name", "@var", "@@sys", "TRUE", "NULL", "'a' 'b'", "'é\U0001F600'", "''",
    # structured expressions
    "CASE WHEN a = 1 THEN 'one' ELSE 'other' END", "CASE a WHEN 1 THEN 2 END", "CAST(a AS VARCHAR(10))", "CAST(a AS FOO('a b'))",
    "CAST(a AS NUMERIC(10, 2))", "CAST(a AS TIMESTAMP(3) WITH TIME ZONE)", "CAST(a AS INT ARRAY)", "CAST(a AS ARRAY<INT>)", "CAST(a AS \"my type\")",
    "TRY_CAST(a AS INT)", "SAFE_CAST(a AS INT64)", "CONVERT(a, CHAR)", "CONVERT(a USING utf8)", "CONVERT(INT, a)",
    "EXTRACT(YEAR FROM d)", "CEIL(d TO DAY)", "FLOOR(x)", "SUBSTRING(s FROM 1 FOR 2)", "SUBSTRING(s, 1, 2)", "TRIM(BOTH 'x' FROM s)", "TRIM(s, 'x')",
    "POSITION('a' IN s)", "OVERLAY(s PLACING 'x' FROM 1 FOR 2)", "f()", "f(a, b)", "s.f(a)", "count(*)", "count(DISTINCT x)", "f(ALL x)",
    "sum(x) OVER (PARTITION BY y ORDER BY z DESC NULLS LAST ROWS BETWEEN 1 PRECEDING AND CURRENT ROW)", "sum(x) OVER w",
    "sum(x) FILTER (WHERE x > 0)", "f(a => 1)", "f(a := 1)", "string_agg(x, ',' ORDER BY y)", "LISTAGG(x, ',') WITHIN GROUP (ORDER BY y)",
    "array_agg(x ORDER BY y LIMIT 2)", "f(x IGNORE NULLS)", "first_value(x) IGNORE NULLS OVER (ORDER BY y)", "f(x)(y)",
    "(SELECT max(x) FROM u)", "EXISTS (SELECT 1 FROM u WHERE u.a = 1)", "a IN (SELECT b FROM u)", "a > ALL (SELECT b FROM u)",
    "(SELECT 1 UNION ALL SELECT 2)", "(SELECT a FROM u ORDER BY a LIMIT 1 OFFSET 2)", "(WITH w AS (SELECT 1) SELECT * FROM w)", "(VALUES (1), (2))",
    "ARRAY[1, 2]", "[1, 2]", "ARRAY(SELECT 1)", "INTERVAL '1' DAY", "INTERVAL '1 day'", "INTERVAL 1 + 1 DAY", "INTERVAL '1-2' YEAR TO MONTH",
    "DATE '2020-01-01'", "TIMESTAMP '2020-01-01 00:00:00'", "STRUCT(1 AS a, 'x')", "STRUCT<a INT64>(1)", "{'k': 1}", "MAP {'k': 1}", "MAP(['a'], [1])",
    "COALESCE(a, NULL, TRUE)", "a.b(+)", "MATCH (c1, c2) AGAINST ('x' IN BOOLEAN MODE)", "_utf8'abc'", "_latin1 X'41'",
    "a IN UNNEST(b)", "GROUPING SETS ((a), (b))", "CUBE (a, b)", "ROLLUP (a)", "x:y.z", "x:y[0]::INT", "PRIOR a", "CONNECT_BY_ROOT a", "* ", "t.*",
]

# ------------------------------------------------------------------ case streams

def option_sets():
    return [(u, t) for u in (True, False) for t in (False, True)]


def corpus_cases(run):
    """corpus x every dialect that accepts the text (harvest-time, default options) x unescape x
    trailing commas.  (Both tiers: this stream costs ~10 s for ~67k cases.)"""
    from corpus import corpus
    cases = []
    for x in corpus():
        for d in x["dialects"]:
            for u, t in option_sets():
                cases.append({"dialect": d, "sql": x["sql"], "unescape": u, "trailing": t, "stream": "corpus"})
    return cases


def splice_cases(run, n):
    from corpus import corpus
    rng = run.rng
    pool = [x for x in corpus() if re.search(r"[0-9']", x["sql"])]
    cases = []
    for i in range(n):
        x = rng.choice(pool)
        d = "generic" if ("generic" in x["dialects"] and rng.random() < 0.25) else rng.choice(x["dialects"])
        cases.append({"dialect": d, "sql": x["sql"], "expr": EXPRS[i % len(EXPRS)] if i < 8 * len(EXPRS) else rng.choice(EXPRS),
                      "seed": rng.randrange(1 << 30), "unescape": rng.random() < 0.75, "trailing": rng.random() < 0.15,
                      "stream": "splice"})
    return cases


# Raw substitutions (no parentheses): another spelling of the same kind of token.
SUBST = {
    "ident": (["ident"], ['"Quoted Id"', "`bq id`", "[br id]", "MiXeD", "date", '"select"', "_x1", '"q""uote"', "x$y", "é", '"é"', '""',
                          '"a.b"', "a.b", '"A"', "key", "value", "first", '"back`tick"', "`select`", "[a]]b]", "#tmp", "@v", '"trailing "']),
    "num": (["num"], ["007", "1e3", "1E+3", ".5", "1.", "1.50", "0x1F", "12345678901234567890123", "1_000", "0", "00", "1L", "+1", "-1", "1.0e-2",
                      "4294967296", "18446744073709551616", "0.10", "1e0"]),
    "str": (["str"], ["'it''s'", r"'a\\b'", r"'a\'b'", '"dq"', "N'nat'", r"E'e\ns'", "$$dollar$$", "$t$tag$t$", "X'AB'", "''", "' '", "'a''''b'", "'%_'",
                      "'é'", "'multi\nline'", "'tab\there'", "'semi;colon'", "'--dash'", "'/*c*/'", "U&'u'", "'a' 'b'", "R'r'", "B'b'", "'\"'", "'`'", "'$'",
                      r"'\\'"]),
}


def subst_cases(run, which, n=None):
    from corpus import corpus
    rng = run.rng
    sites, pool_e = SUBST[which]
    n = n or (120000 if run.tier == "thorough" else 25000)
    rx = {"ident": r"[A-Za-z_]", "num": r"[0-9]", "str": r"'"}[which]
    pool = [x for x in corpus() if re.search(rx, x["sql"])]
    cases = []
    for i in range(n):
        x = rng.choice(pool)
        d = "generic" if ("generic" in x["dialects"] and rng.random() < 0.25) else rng.choice(x["dialects"])
        cases.append({"dialect": d, "sql": x["sql"], "expr": pool_e[i % len(pool_e)] if i < 40 * len(pool_e) else rng.choice(pool_e),
                      "seed": rng.randrange(1 << 30), "unescape": rng.random() < 0.75, "trailing": rng.random() < 0.15,
                      "sites": sites, "paren": False, "stream": "subst-" + which})
    return cases


# Fragments ADDED after a random token (insertion stream): an extra alias, identifier, literal, list element or
# parenthesised group.  Almost every insertion is rejected; what is accepted must keep the fragment.
INSERTS = ["zq9", "AS zq9", "AS zq9 (zc1, zc2)", '"Zq 9"', 'AS "Zq 9"', "(zq9)", ", zq9", "424242", "'zq9lit'", ", 424242", "zq9.zq8", "AS zq9 AS zq8",
           "zq9 zq8", "(424242)", "= zq9", "AS 'zq9lit'", "ON zq9 = zq8", "USING (zq9)", "IN (424242)", "NOT NULL", "DEFAULT 424242", "COMMENT 'zq9lit'",
           "EXCEPT (zq9)", "EXCLUDE (zq9)", "IGNORE NULLS", "FILTER (WHERE zq9 > 424242)", "OVER (ORDER BY zq9)", "WITHIN GROUP (ORDER BY zq9)",
           "ORDER BY zq9", "LIMIT 424242", "OFFSET 424242", "WHERE zq9 = 424242", "PARTITION (zq9)", "WITH (zq9 = 424242)", "COLLATE zq9", "AT TIME ZONE 'zq9lit'",
           "START WITH zq9 = 424242", "CONNECT BY zq9 = PRIOR zq8", "START WITH prior(zq9) = 424242", "START WITH PRIOR zq9 = 424242", "AND prior(zq9) = 424242", "HAVING zq9 > 424242", "GROUP BY zq9", "QUALIFY zq9 = 424242", "RETURNING zq9", "CASCADE", "IF EXISTS", "DEFAULT 'zq9lit' ON EMPTY", "DEFAULT 'zq9lit' ON ERROR", "OFFSET 424242 ROWS", "STORED AS INPUTFORMAT 'zq9lit' OUTPUTFORMAT 'zq8lit'"]


def insert_cases(run, n=None):
    from corpus import corpus
    rng = run.rng
    n = n or (200000 if run.tier == "thorough" else 40000)
    pool = corpus()
    cases = []
    for i in range(n):
        x = rng.choice(pool)
        d = "generic" if ("generic" in x["dialects"] and rng.random() < 0.25) else rng.choice(x["dialects"])
        cases.append({"dialect": d, "sql": x["sql"], "expr": INSERTS[i % len(INSERTS)], "seed": rng.randrange(1 << 30),
                      "unescape": rng.random() < 0.75, "trailing": rng.random() < 0.15, "insert": True, "stream": "insert"})
    return cases


def sweep_failures(run, mode):
    """Exhaustive insertion (rtx sweep): every fragment of INSERTS (quick: a rotating third) after every token of every
    corpus text under one accepting dialect (thorough: all).  Returns (cases for `rtx <mode>` on the failing mutants, stats)."""
    from corpus import corpus
    rng = run.rng
    cases = []
    for k, x in enumerate(corpus()):
        ds = x["dialects"] if run.tier == "thorough" else [rng.choice(x["dialects"])]
        frs = INSERTS if run.tier == "thorough" else [f for j, f in enumerate(INSERTS) if (j + k) % 3 == 0]
        for d in ds:
            cases.append({"dialect": d, "sql": x["sql"], "frags": frs, "unescape": rng.random() < 0.8, "trailing": False})
    res = run_bin_parallel(PKG, ["sweep"], cases, pkg=PKG, timeout=1700)
    out, stats = [], collections.Counter()
    for c, r in zip(cases, res):
        stats["texts"] += 1
        for k in ("tried", "accepted", "panics"):
            stats[k] += r.get(k, 0)
        for f in r.get("fails", []):
            stats["failing_mutants"] += 1
            out.append({"dialect": c["dialect"], "sql": f["mutated"], "unescape": c["unescape"], "trailing": False, "stream": "sweep",
                        "origin": {"sql": c["sql"], "frag": f["frag"]}})
    return out, dict(stats)


def mutation_streams(run):
    """[(stream name, cases)] of all `rtx splice` streams."""
    return [("splice", splice_cases(run, splice_count(run))), ("subst-ident", subst_cases(run, "ident")),
            ("subst-num", subst_cases(run, "num")), ("subst-str", subst_cases(run, "str")), ("insert", insert_cases(run))]


def splice_count(run):
    return 400000 if run.tier == "thorough" else 60000


def pair_cases(run, n=None):
    """Two corpus texts accepted by the same dialect, joined by `;` (script-level printing and statement boundaries)."""
    from corpus import corpus
    rng = run.rng
    n = n or (40000 if run.tier == "thorough" else 6000)
    by_d = {d: [x["sql"] for x in corpus() if d in x["dialects"]] for d in DIALECTS}
    cases = []
    for _ in range(n):
        d = rng.choice(DIALECTS)
        a, b = rng.choice(by_d[d]), rng.choice(by_d[d])
        # mostly `a; b`; sometimes a joiner that must not make the parser accept the text while dropping its tail
        # (the statement loop used to stop in front of END and ignore everything after it)
        r = rng.random()
        joiner = ";\n" if r < 0.85 else rng.choice([" END ", " END zz9 ", "\nEND;\n", " END -- c\n", "; END ", " end "])
        cases.append({"dialect": d, "sql": a.rstrip().rstrip(";") + joiner + b, "unescape": rng.random() < 0.75, "trailing": rng.random() < 0.15,
                      "stream": "pairs"})
    return cases


# ------------------------------------------------------------------ AST helpers (serde encoding)

def walk(v):
    """All nodes of a JSON tree (pre-order)."""
    stack = [v]
    while stack:
        x = stack.pop()
        yield x
        if isinstance(x, dict):
            stack.extend(x.values())
        elif isinstance(x, list):
            stack.extend(x)


def variants(v, name):
    """Payloads of every externally-tagged enum node {name: payload} in the tree."""
    for x in walk(v):
        if isinstance(x, dict) and name in x and len(x) == 1:
            yield x[name]


def load_ast(s):
    if not s:
        return None
    try:
        return json.loads(s)
    except ValueError:
        return None


UNOP_SYM = {"Minus": "-", "Plus": "+", "Not": "NOT", "PGBitwiseNot": "~", "PGSquareRoot": "|/", "PGCubeRoot": "||/",
            "PGPrefixFactorial": "!!", "PGAbs": "@", "PGPostfixFactorial": "!"}


def prefix_pairs(ast):
    """(outer, inner) spellings of directly nested prefix operators, and (outer, first character) for an
    operand whose printed form starts with an operator character."""
    out = []
    for u in variants(ast, "UnaryOp"):
        if not isinstance(u, dict):
            continue
        e = u.get("expr")
        o = UNOP_SYM.get(u.get("op"), str(u.get("op")))
        if isinstance(e, dict) and "UnaryOp" in e and isinstance(e["UnaryOp"], dict):
            out.append((o, UNOP_SYM.get(e["UnaryOp"].get("op"), str(e["UnaryOp"].get("op")))))
    return out


_lit_tables = None


def lit_tables():
    global _lit_tables
    if _lit_tables is None:
        import lexlib
        _lit_tables = lexlib.dialect_tables()
    return _lit_tables


def lit_classes(dialect, lits):
    """C06 known classes hit by the string-literal / quoted-identifier tokens of the input."""
    from props import C06
    out = []
    for t in lits or []:
        if t["k"] == "Word":
            k, p = {"kind": "Ident", "q": t["q"]}, t["v"]
        elif t["k"] == "Dollar":
            k, p = {"kind": "Dollar", "tag": t["tag"]}, t["v"]
        else:
            k, p = {"kind": t["kind"]}, t["s"]
        for c in C06.classes(k, dialect, p, lit_tables()):
            if c not in out:
                out.append(c)
    return out


LIT_KINDS = {"KSingle", "KDouble", "KTripleSingle", "KTripleDouble", "KByteSingle", "KByteDouble", "KTripleByteSingle",
             "KTripleByteDouble", "KRawSingle", "KRawDouble", "KTripleRawSingle", "KTripleRawDouble", "KNational",
             "KEscaped", "KUnicode", "KHex", "Dollar"}


def is_lit_item(it):
    """content item that is a string literal or a quoted identifier"""
    return it[0] in LIT_KINDS or (it[0] == "w" and it[1] is not None)


# ------------------------------------------------------------------ root-cause rules
# Each rule: (key, predicate(ctx)).  ctx: d (dialect), sk (statement kind), kind (failure kind),
# path, detail, printed, ast (decoded or None), sql (the input), lost/invented/kw (content side).
# The same table serves both properties, so one root cause has one key text.

def _has(ctx, name):
    return ctx["ast"] is not None and any(True for _ in variants(ctx["ast"], name))


def _asts(ctx):
    a = ctx["ast"]
    if a is None:
        return []
    return a if isinstance(a, list) else [a]


def _variants(ctx, name):
    for a in _asts(ctx):
        for v in variants(a, name):
            yield v


def _kwset(ctx):
    return {w.upper() for w in ctx["kw"]}


def _only_kw(ctx):
    return ctx["kind"] == "content" and not ctx["lost"] and not ctx["invented"] and bool(ctx["kw"])


def _custom_with_modifiers(ctx):
    """DataType::Custom(name, modifiers): modifiers are stored as bare strings (quotes of a quoted
    modifier are dropped) and printed raw."""
    mods = []
    for c in _variants(ctx, "Custom"):
        if isinstance(c, list) and len(c) == 2 and isinstance(c[1], list):
            mods += [m for m in c[1] if isinstance(m, str)]
    if not mods:
        return False
    if ctx["kind"] == "content":
        return any(it[0] in ("KSingle", "KDouble") and it[1] in mods for it in ctx["lost"])
    if "Custom" in ctx["path"]:
        return True
    return ctx["kind"] in ("reparse-error", "count", "print-untokenizable") and any(not re.fullmatch(r"[A-Za-z0-9_]+", m) for m in mods)


def _table_partitions(ctx):
    """TableFactor::Table.partitions is printed as `{name}PARTITION (..)` (no blank)."""
    return any(isinstance(t, dict) and t.get("partitions") for t in _variants(ctx, "Table"))


def _show_variable(ctx):
    return "ShowVariable" in ctx["sk"].split("+") and not _only_kw(ctx)


SHOW_PREFIX = {"VARIABLES", "STATUS", "SESSION", "GLOBAL"}


def _show_variable_kw(ctx):
    return "ShowVariable" in ctx["sk"].split("+") and _only_kw(ctx) and _kwset(ctx) <= SHOW_PREFIX


def _column_option_kw(ctx):
    if not (_only_kw(ctx) and _kwset(ctx) <= {"AUTOINCREMENT", "AUTO_INCREMENT", "ASC", "DESC"}):
        return False
    return any(True for _ in _variants(ctx, "CreateTable")) or any(True for _ in _variants(ctx, "AddColumn"))


def _drop_projection_kw(ctx):
    return _only_kw(ctx) and _kwset(ctx) == {"PROJECTION"} and any(True for _ in _variants(ctx, "DropColumn"))


def _add_if_not_exists_kw(ctx):
    return _only_kw(ctx) and _kwset(ctx) <= {"IF", "NOT", "EXISTS"} and \
        any(isinstance(a, dict) and a.get("if_not_exists") is False for a in _variants(ctx, "AddColumn"))


def _local_global_kw(ctx):
    return _only_kw(ctx) and _kwset(ctx) == {"LOCAL"} and any(isinstance(t, dict) and t.get("global") is True for t in _variants(ctx, "CreateTable"))


def _create_function_noargs(ctx):
    return ctx["sk"] == "CreateFunction" and ctx["kind"] == "reparse-error" and "Expected: (" in ctx["detail"] and \
        any(isinstance(c, dict) and c.get("args") is None for c in _variants(ctx, "CreateFunction"))


def _create_function_body(ctx):
    if ctx["kind"] != "content" or "CreateFunction" not in ctx["sk"].split("+"):
        return False
    inv = [it[1] for it in ctx["invented"] if it[0] == "KSingle"]
    return any(it[0] == "w" and it[1] == '"' and it[2] in inv for it in ctx["lost"])


def _mssql_declare_multi(ctx):
    return ctx["sk"] == "Declare" and ctx["kind"] == "reparse-error" and \
        any(isinstance(d, dict) and len(d.get("stmts", [])) > 1 for d in _variants(ctx, "Declare")) and "; " in ctx["printed"]


def _mssql_alter_role_rename(ctx):
    if not any(isinstance(a, dict) and isinstance(a.get("operation"), dict) and "RenameRole" in a["operation"] for a in _variants(ctx, "AlterRole")):
        return False
    return ctx["d"] == "mssql" and (ctx["kind"] == "reparse-error" or (_only_kw(ctx) and _kwset(ctx) <= {"WITH", "NAME"}))


def _copy_payload(ctx):
    """COPY .. FROM STDIN; <rows>: rows are stored as a flat list of cells (tab and newline both end a cell) and printed
    tab-separated after `;\n`, so the printed payload re-parses to a different list (C05 exempts the payload by definition)."""
    return any(isinstance(c, dict) and c.get("values") for c in _variants(ctx, "Copy"))


def _at_placeholder(ctx):
    """parse_value: Token::AtSign / Token::Colon followed by a word is glued into Placeholder(prefix + word.value): blanks
    between them, a second @, and the quotes of a quoted word are dropped; the glued text lexes differently."""
    ph = [p for p in _variants(ctx, "Placeholder") if isinstance(p, str) and p[:1] in "@:"]
    if not ph:
        return False
    if ctx["kind"] == "content":
        return any(it[-1] in ph for it in ctx["invented"]) or \
            any(it[0] == "w" and it[1] is not None and (("@" + it[2]) in ph or (":" + it[2]) in ph) for it in ctx["lost"])
    odd = any(not re.fullmatch(r"[A-Za-z_][A-Za-z0-9_]*", p[1:]) for p in ph)
    return odd or ("Value" in ctx["detail"] and "Identifier" in ctx["detail"])


def value_sites(ast, value):
    """Where a string equal to `value` sits in a serde tree: [(site, quote_style or None, inside_ident)].
    site = the nearest enclosing enum variant plus the field names below it (indexes dropped)."""
    out = []

    def site_of(path):
        keys = [k for k in path if isinstance(k, str)]
        caps = [i for i, k in enumerate(keys) if k[:1].isupper()]
        if not caps:
            return ".".join(keys[-2:])
        i = caps[-1]
        if i == len(keys) - 1 and i > 0:
            i -= 1
        return ".".join(keys[i:])

    def go(x, path):
        if isinstance(x, dict):
            if set(x) == {"value", "quote_style"} and x["value"] == value:
                out.append((site_of(path), x["quote_style"], True))
                return
            for k, v in x.items():
                go(v, path + [k])
        elif isinstance(x, list):
            for i, v in enumerate(x):
                go(v, path + [i])
        elif isinstance(x, str) and x == value:
            out.append((site_of(path), None, False))
    go(ast, [])
    return out


# AST sites grouped by the Display impl / parser function that owns them (keeps the list of keys reviewable;
# a site that matches no group keeps its own name, i.e. is a new key)
SITE_GROUPS = [
    (r"^comment\.|^CommentDef", "CommentDef"),
    (r"^Comment\.comment", "Statement::Comment"),
    (r"^for_xml\.|^Xml\.|^Json\.|^ForClause", "ForClause"),
    (r"hive_formats|^SERDE\.|^Directory\.|^using\.", "Hive-clauses"),
    (r"^CreateTable\.with_tags", "Tag"),
    (r"^CreateTable\.(engine|default_charset|collation|default_ddl_collation)", "CreateTable-options"),
    (r"Datetime64", "DataType::Datetime64"),
    (r"^SetNames\.", "SetNames"),
    (r"^column_position\.", "MySQLColumnPosition"),
    (r"^CopyIntoSnowflake", "CopyIntoSnowflake"),
    (r"^CreateStage\.", "CreateStage-options"),
    (r"^Table\.(table_name|schema_name)", "SetExpr::Table"),
    (r"PGCustomBinaryOperator", "PGCustomBinaryOperator"),
]


def site_group(site):
    for rx, g in SITE_GROUPS:
        if re.search(rx, site):
            return g
    return site


def _plain(ctx):
    return "…" not in ctx["printed"]


def _string_printed_raw(ctx):
    """A string literal stored as a bare String and printed as '{}' without escaping."""
    if not ctx["unescape"]:
        return None
    for t in ctx["lits"]:
        if t["k"] != "Str":
            continue
        # a quote that the heuristic Value printer would have doubled (not already doubled, not after a backslash)
        lone = "'" in re.sub(r"''|\\\\'", "", t["s"])
        if lone and ("'" + t["s"] + "'") in ctx["printed"] and ("'" + t["s"].replace("'", "''") + "'") not in ctx["printed"]:
            sites = [st for a in _asts(ctx) for st, _, ident in value_sites(a, t["s"]) if not ident]
            return "string-printed-unescaped:%s" % site_group(sites[0] if sites else ctx["sk"])
    return None


def _bigquery_path_split(ctx):
    """BigQuery: a quoted name containing dots is split into one part per dot by parse_object_name."""
    if ctx["d"] != "bigquery" or ctx["kind"] != "content":
        return False
    inv = [it[-1] for it in ctx["invented"]]
    return bool(ctx["lost"]) and all("." in it[-1] and all(p in inv for p in it[-1].split(".")) for it in ctx["lost"])


def _kind_normalised(ctx):
    """parse_literal_string accepts '..', "..", E'..', U&'..', $$..$$-as-word and quoted words, keeps only the text;
    printers emit '..'."""
    if ctx["kind"] != "content" or not ctx["lost"]:
        return False
    inv = [it[1] for it in ctx["invented"] if it[0] == "KSingle"]
    return all(it[-1] in inv and it[0] != "n" for it in ctx["lost"])


def _uint_normalised(ctx):
    """parse_literal_uint: the digits become a u64 and are printed canonically (007 -> 7)."""
    if ctx["kind"] != "content" or not ctx["lost"]:
        return False
    try:
        a = sorted(int(it[1]) for it in ctx["lost"] if it[0] == "n")
        b = sorted(int(it[1]) for it in ctx["invented"] if it[0] == "n")
    except ValueError:
        return False
    return len(a) == len(ctx["lost"]) and len(b) == len(ctx["invented"]) and a == b


def _quotes_dropped(ctx):
    """A quoted identifier stored as a bare String (or printed through ident.value) and printed without its quotes."""
    close = {'"': '"', "`": "`", "[": "]"}
    for t in ctx["lits"]:
        if t["k"] == "Word" and t["q"] in close:
            q, v, item = t["q"], t["v"], ["w", t["q"], t["v"]]
        elif t["k"] == "Str" and t["kind"] == "KDouble":
            q, v, item = '"', t["s"], ["KDouble", t["s"]]
        else:
            continue
        hit = False
        if ctx["kind"] == "content":
            hit = item in ctx["lost"] and not any(is_lit_item(it) and it[-1] == v for it in ctx["invented"])
        elif ctx["kind"] == "print-untokenizable" or (ctx["kind"] in ("reparse-error", "different-tree", "count") and _plain(ctx)):
            c = close[q]
            hit = (q + v.replace(c, c + c) + c) not in ctx["printed"] and (q + v + c) not in ctx["printed"]
        raw = False
        if not hit and close[q] in v and ctx["kind"] != "content":
            c = close[q]
            raw = (q + v + c) in ctx["printed"] and (q + v.replace(c, c + c) + c) not in ctx["printed"]
        if hit or raw:
            found = [x for a in _asts(ctx) for x in value_sites(a, v)] + [x for a in _asts(ctx) for x in value_sites(a, q + v + close[q])]
            bare = [st for st, _, ident in found if not ident]
            site = bare[0] if bare else (found[0][0] if found else ctx["sk"])
            if site_group(site).endswith(".Custom") or site_group(site) == "Custom":
                # modifiers of a custom data type are stored as bare strings: same root cause as FOO('a b')
                return "datatype:custom-modifier-quotes"
            return "%s:%s" % ("identifier-quotes-dropped" if hit else "identifier-printed-unescaped", site_group(site))
    return None


def _function_arg_name(ctx):
    if ctx["kind"] != "content" or not ctx["lost"] or ctx["invented"] or any(it[0] not in ("w", "n") for it in ctx["lost"]):
        return False
    for a in _asts(ctx):
        for x in walk(a):
            if isinstance(x, dict) and set(x) == {"mode", "name", "data_type", "default_expr"}:
                return True
    return False


def _redshift_bracket(ctx):
    """Redshift lexes `[x..]` as a delimited identifier when x can start an identifier: a subscript whose printed
    form starts with a letter (0x1F prints as X'1F') turns into a bracket-quoted word."""
    return ctx["d"] == "redshift" and re.search(r"\[[A-Za-z_]", ctx["printed"]) is not None and \
        any(True for _ in _variants(ctx, "HexStringLiteral"))


def _snowflake_dangling(ctx):
    """Snowflake CREATE TABLE a CLONE / LIKE: the name is parsed with `.ok()`, so a missing name is accepted and the
    clause is dropped; the statement prints as `CREATE TABLE a ()`."""
    if ctx["d"] != "snowflake" or "CreateTable" not in ctx["sk"].split("+"):
        return False
    if ctx["kind"] == "content":
        return _only_kw(ctx) and _kwset(ctx) <= {"CLONE", "LIKE"}
    return ctx["kind"] == "reparse-error" and ctx["printed"].rstrip().endswith("()") and "unexpected end of input" in ctx["detail"]


def _version_alias(ctx):
    return ctx["kind"] == "reparse-error" and any(isinstance(t, dict) and t.get("version") and t.get("alias") for t in _variants(ctx, "Table"))


def _prefix_pair_key(ctx):
    """`{op}{expr}` is printed without a blank: two adjacent prefix operators fuse into another token
    (`--` starts a comment; PostgreSQL lexes any run of operator characters as one operator)."""
    printed = ctx["printed"].replace("…", "")
    for a in _asts(ctx):
        for o, i in prefix_pairs(a):
            if (o + i) in printed:
                return "core:prefix-pair:%s%s" % (o, i)
    return None


def _number_period_glue(ctx):
    """A number literal next to a `.` of a field / map access: `424242 .bar` prints `424242.bar` and `x. 424242` prints
    `x.424242`, where the tokenizer reads the period into the number."""
    sql, printed = ctx["sql"], ctx["printed"]
    return bool((re.search(r"\d\s+\.\s*[A-Za-z_]", sql) and re.search(r"\d\.[A-Za-z_]", printed))
                or (re.search(r"\.\s+\d", sql) and re.search(r"[\]\w)]\.\d", printed)))


RULES = [
    ("number-literal-next-to-period", _number_period_glue),
    ("datatype:custom-modifier-quotes", _custom_with_modifiers),
    ("CreateFunction:empty-arglist", _create_function_noargs),
    ("CreateFunction:body-requoted", _create_function_body),
    ("Declare:mssql-multiple", _mssql_declare_multi),
    ("AlterRole:mssql-rename", _mssql_alter_role_rename),
    ("Copy:stdin-payload", _copy_payload),
    ("Placeholder:prefix-glued-to-word", _at_placeholder),
    ("bigquery:quoted-path-split", _bigquery_path_split),
    ("parse_literal_uint:normalised", _uint_normalised),
    ("redshift:bracket-subscript-vs-delimited-identifier", _redshift_bracket),
]
# rules that compute their key (site-dependent)
KEY_RULES = [_string_printed_raw, _quotes_dropped]
LATE_RULES = [("parse_literal_string:kind-normalised", _kind_normalised)]


def generic_site(path):
    vs = [x for x in re.split(r"[.\[\]0-9]+", path or "") if x and x[0].isupper()]
    return vs[-1] if vs else None


def err_class(detail):
    """Stable class of a parser error text: the expectation, without the found token / position."""
    m = re.match(r"sql parser error: Expected:? (.*?), found", detail or "")
    if m:
        return "expected-" + re.sub(r"[^A-Za-z0-9]+", "-", m.group(1)).strip("-")[:40]
    return re.sub(r"[^A-Za-z0-9]+", "-", (detail or "")[:40]).strip("-")


def make_ctx(case, sk, kind, printed="", path=None, detail=None, ast=None, lits=None, lost=None, invented=None, kw=None):
    return {"d": case["dialect"], "sql": case.get("mutated") or case["sql"], "sk": sk, "kind": kind, "printed": printed or "",
            "path": path or "", "detail": detail or "", "ast": load_ast(ast) if isinstance(ast, str) else ast, "lits": lits or [],
            "lost": lost or [], "invented": invented or [], "kw": kw or [], "unescape": case.get("unescape", True), "trailing": case.get("trailing", False)}


def root_key(ctx, extra_rules=()):
    """Stable key of one failure."""
    for key, pred in list(extra_rules) + RULES:
        try:
            if pred(ctx):
                return key
        except Exception:
            pass
    pk = _prefix_pair_key(ctx)
    if pk:
        return pk
    cls = lit_classes(ctx["d"], ctx["lits"])
    if cls and (literal_involved(ctx) or neutral_passes(ctx)):
        return "literal:" + cls[0]
    for fn in KEY_RULES:
        try:
            k = fn(ctx)
            if k:
                return k
        except Exception:
            pass
    for key, pred in LATE_RULES:
        if pred(ctx):
            return key
    return None


_neutral_cache = {}


def neutral_passes(ctx):
    """Is the failure CAUSED by a literal of a known C06 class?  Decided on the implementation: the same text
    with the payload of every string literal / quoted identifier made benign (rtx neutral) must pass both the
    round-trip and the content check.  Only then may a failure that also shows other symptoms (tokens after an
    unbalanced quote shift, so unrelated items look lost) be filed under the literal class."""
    key = (ctx["d"], ctx["sql"], ctx["unescape"], ctx.get("trailing", False))
    if key not in _neutral_cache:
        try:
            r = run_bin(PKG, ["neutral"], [{"dialect": ctx["d"], "sql": ctx["sql"], "unescape": ctx["unescape"], "trailing": ctx.get("trailing", False)}], pkg=PKG)[0]
            # the neutral text may still differ in optional keywords (AS ..): that is not what a failure that lost or invented
            # content TOKENS is about, so such a failure is still caused by the literal
            kw_only = r.get("content") == "diff" and r.get("content_tokens_differ") is False and bool(ctx.get("lost") or ctx.get("invented"))
            _neutral_cache[key] = r.get("status") == "neutralised" and r.get("roundtrip") == "ok" and (r.get("content") in ("ok", "exempt-copy-payload") or kw_only)
        except Exception:
            _neutral_cache[key] = False
    return _neutral_cache[key]


def literal_involved(ctx):
    k = ctx["kind"]
    if k in ("reparse-error", "count", "print-untokenizable", "not-idempotent"):
        return True
    if k == "different-tree":
        d = ctx["detail"]
        m = re.match(r"(\S*): (.*) <> (.*)$", d, re.S)
        return bool(m) and m.group(2).startswith('"') and m.group(3).startswith('"')
    if k == "content":
        return bool(ctx["lost"]) and all(is_lit_item(i) for i in ctx["lost"])
    return False


# ------------------------------------------------------------------ C05: keyword words
# An unquoted keyword is not content.  The harness still reports every keyword of the input whose
# upper-case form occurs nowhere among the words of the printed text ("kw_lost"); the words below are
# optional noise words and synonyms that the printer normalises away *by design* (the tree has no field
# for them because they carry no information), so their absence is not a loss.  Anything else that
# disappears is reported (a parser that consumes a keyword and then takes another branch shows here).
NOISE_GLOBAL = {
    # query / expression level (queries are embedded in most statement kinds)
    "OUTER": "LEFT/RIGHT/FULL OUTER JOIN == LEFT/RIGHT/FULL JOIN",
    "INNER": "INNER JOIN == JOIN",
    "ALL": "SELECT ALL == SELECT; LIMIT ALL == no limit; aggregate f(ALL x) keeps its flag (then ALL is printed)",
    "LIMIT": "LIMIT ALL == no LIMIT clause",
    "NEXT": "FETCH NEXT == FETCH FIRST",
    "ROW": "FETCH FIRST n ROW ONLY == ROWS",
    "ROWS": "FETCH FIRST ROWS ONLY (no quantity) prints without ROWS synonyms",
    "AS": "optional AS before aliases / COPY option values / DECLARE types",
}
NOISE_BY_KIND = {
    "Commit": {"END": "END == COMMIT", "WORK": "optional", "TRANSACTION": "optional", "AND": "AND NO CHAIN is the default", "NO": "", "CHAIN": ""},
    "Rollback": {"WORK": "optional", "TRANSACTION": "optional", "AND": "AND NO CHAIN is the default", "NO": "", "CHAIN": ""},
    "StartTransaction": {"WORK": "BEGIN WORK == BEGIN TRANSACTION"},
    "Copy": {"WITH": "optional before the option list", "TRUE": "FREEZE TRUE == FREEZE, HEADER TRUE == HEADER"},
    "CreateRole": {"WITH": "optional before role options"},
    "CreateTable": {"TEMP": "TEMP == TEMPORARY"},
    "SetVariable": {"SESSION": "SET SESSION x == SET x", "TO": "SET x TO v == SET x = v", "TIME": "SET TIME ZONE == SET TIMEZONE", "ZONE": ""},
    "SetTimeZone": {"TIMEZONE": "SET TIMEZONE == SET TIME ZONE (printed in the two-word form)"},
    "CreateFunction": {"DEFAULT": "argument default: `a INT DEFAULT 1` == `a INT = 1` (printed with =)"},
    "DropFunction": {"DEFAULT": "argument default: DEFAULT == ="},
    "DropProcedure": {"DEFAULT": "argument default: DEFAULT == ="},
    "CreateProcedure": {"DEFAULT": "argument default: DEFAULT == ="},
    "CreateTrigger": {"DEFAULT": "argument default in EXECUTE FUNCTION f(..): DEFAULT == ="},
    "CreateExtension": {"WITH": "CREATE EXTENSION x [WITH] [SCHEMA s] ..: WITH is an optional noise word (PostgreSQL grammar)"},
    "ShowColumns": {"FIELDS": "FIELDS == COLUMNS", "IN": "IN == FROM"},
    "ShowTables": {"IN": "IN == FROM"},
}


# Words the parser matches by their text although they are not in the keyword table: they are syntax, the
# printer emits them in upper case (so `set names x` prints `SET NAMES x`); not content.
PSEUDO_KEYWORDS = {"NAMES": "parse_set: SET NAMES is recognised by comparing the identifier text"}


def drop_pseudo_keywords(lost, invented):
    lost, invented = list(lost), list(invented)
    for it in list(lost):
        if it[0] == "w" and it[1] is None and it[2].upper() in PSEUDO_KEYWORDS:
            twin = ["w", None, it[2].upper()]
            if twin in invented:
                invented.remove(twin)
                lost.remove(it)
    return lost, invented


# Synonymous spellings inside an expression form (the tree records which family was used, not each word).
NOISE_BY_VARIANT = {
    "Substring": {"FOR": "SUBSTRING(x, a FOR b): the comma form and the FROM/FOR form may be mixed; printed with the separators of the first",
                  "FROM": "SUBSTRING(x FROM a, b): see FOR"},
}


def noise_by_variant(asts, w):
    w = w.upper()
    hit = [v for v, ws in NOISE_BY_VARIANT.items() if w in ws]
    if not hit:
        return False
    for a in asts:
        for x in walk(a):
            if isinstance(x, dict) and any(v in x for v in hit):
                return True
    return False


def noise(kinds, w):
    w = w.upper()
    return w in NOISE_GLOBAL or any(w in NOISE_BY_KIND.get(k, {}) for k in kinds)


def fallback_rt_key(f):
    site = generic_site(f.get("path")) or f["stmt_kind"]
    if f["kind"] == "different-tree":
        return "%s:different-tree" % site
    return "%s:%s:%s" % (site, f["kind"], err_class(f["detail"]))


def rt_findings(case, rt, extra_rules=()):
    """[(key, listed-key-candidate?, fail record)] for one `rtx roundtrip` result (status fail/panic)."""
    out = []
    fails = rt.get("fails", [])
    stmt_fails = [f for f in fails if f["stmt"] != "script"]
    for f in (stmt_fails or fails):     # a script-level failure next to a statement-level one is its consequence
        ctx = make_ctx(case, f["stmt_kind"], f["kind"], f["printed"], f.get("path"), f["detail"], f.get("ast"), rt.get("lits"))
        k = root_key(ctx, extra_rules)
        if k is None:
            k = ("script:" if f["stmt"] == "script" else "") + fallback_rt_key(f)
        out.append((k, f))
    return out


def content_units(r):
    """(statement kinds, result) units of one `rtx content` result: per statement when the harness could
    attribute the difference, else the whole script."""
    per = r.get("per_statement")
    if per:
        return [(u["result"].get("stmt_kinds", []), u["result"]) for u in per]
    return [(r.get("stmt_kinds", []), r)]


def ct_findings(case, r, extra_rules=()):
    """[(key, unit)] for one `rtx content` result with status diff / print-untokenizable / panic."""
    out = []
    for kinds, u in content_units(r):
        st = u["status"]
        sk = "+".join(sorted(set(kinds))) or "?"
        asts = [load_ast(a) for a in (u.get("asts") or []) if a]
        if st in ("print-untokenizable", "panic", "input-untokenizable"):
            ctx = make_ctx(case, sk, st if st != "panic" else "panic", u.get("printed"), None, u.get("detail"), asts, u.get("lits"))
            out.append((root_key(ctx, extra_rules) or "%s:%s" % (sk, st), u))
            continue
        if st != "diff":
            continue
        lost, inv = drop_pseudo_keywords(u.get("lost", []), u.get("invented", []))
        kw = [w for w in u.get("kw_lost", []) if not noise(kinds, w) and not noise_by_variant(asts, w)]
        if not lost and not inv and not kw:
            continue
        ctx = make_ctx(case, sk, "content", u.get("printed"), None, None, asts, u.get("lits"), lost, inv, kw)
        k = root_key(ctx, extra_rules)
        if k is None:
            if lost or inv:
                k = "%s:content-%s" % (sk, "changed" if (lost and inv) else "lost" if lost else "invented")
            else:
                k = "%s:keyword-lost:%s" % (sk, "+".join(sorted({w.upper() for w in kw})))
        out.append((k, u))
    return out


# ------------------------------------------------------------------ judging (shared by C01.py / C05.py)

class Judge:
    """Counts cases per stream and routes every failure of an accepted input either to a listed known
    finding (run.known) or to run.violation (at most MAX_REPLAY_PER_KEY replay files per key)."""

    def __init__(self, run, prop):
        self.run, self.prop = run, prop
        self.known = dict(known_findings(prop))
        self.stats = {}
        self.by_key = collections.Counter()
        self.unlisted = collections.Counter()
        self.examples = {}
        self.pending = collections.OrderedDict()
        self.accepted_pairs = set()

    def stream(self, name):
        return self.stats.setdefault(name, {"cases": 0, "accepted": 0, "rejected_or_no_site": 0, "statements": 0,
                                            "exempt": 0, "failed_cases": 0, "failures_by_key": {}})

    def record(self, stream, key, replay):
        st = self.stream(stream)
        st["failures_by_key"][key] = st["failures_by_key"].get(key, 0) + 1
        self.by_key[key] += 1
        if key not in self.examples:
            self.examples[key] = json.loads(json.dumps({k: replay[k] for k in ("dialect", "input", "options", "observed") if k in replay}))
            ob = self.examples[key].get("observed")
            if isinstance(ob, dict) and isinstance(ob.get("printed"), str):
                ob["printed"] = ob["printed"][:400]
            if isinstance(self.examples[key].get("input"), str):
                self.examples[key]["input"] = self.examples[key]["input"][:600]
        if key in self.known:
            self.run.known(key, self.known[key])
        else:
            self.unlisted[key] += 1
            if self.unlisted[key] <= MAX_REPLAY_PER_KEY:
                self.pending.setdefault(key, []).append(dict(replay, key=key, failures_with_this_key="see coverage.outside_model.unlisted_keys"))

    def finish(self):
        # replay files: one per unlisted key first, then the second of each, ... (common.Run caps the files per run)
        for i in range(MAX_REPLAY_PER_KEY):
            for key, reps in self.pending.items():
                if i < len(reps):
                    self.run.violation(reps[i])
        self.run.notes["outside_model"] = {
            "streams": self.stats,
            "failures_by_key": dict(self.by_key.most_common()),
            "unlisted_keys": dict(self.unlisted),
            "example_per_key": self.examples,
        }


def replay_case(prop, r):
    """Re-run a recorded case (C01: roundtrip, C05: content) on the implementation."""
    c = {"dialect": r["dialect"], "sql": r["input"], "unescape": r.get("options", {}).get("unescape", True),
         "trailing": r.get("options", {}).get("trailing", False)}
    out = {}
    for mode in ("roundtrip", "content"):
        res = run_bin(PKG, [mode], [c], pkg=PKG)[0]
        for f in res.get("fails", []):
            f.pop("ast", None)
        res.pop("asts", None)
        for u in res.get("per_statement", []) or []:
            u["result"].pop("asts", None)
        out[mode] = res
    return out
