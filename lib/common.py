"""Shared orchestration for the /verif checks: building the harness against the current /repo
tree, regenerating Coq instance files, running coqc, evidence and violation reporting."""
import fcntl
import hashlib
import json
import os
import random
import re
import subprocess
import sys
import time

VERIF = os.path.dirname(os.path.dirname(os.path.abspath(__file__)))
REPO = os.environ.get("VERIF_REPO", "/repo")
CACHE = os.path.join(VERIF, ".cache")
COQ = os.path.join(VERIF, "coq")
GEN = os.path.join(COQ, "gen")
CASES = os.path.join(COQ, "cases")
# legacy shared location (do not use: scratch copies of crates overwrite each other's binaries there)
TARGET = os.path.join(CACHE, "target")
BIN = os.path.join(TARGET, "debug")


def target_dir(pkg):
    """Each harness crate has its own cargo target dir (a shared one lets scratch copies of a
    crate overwrite another crate's binaries)."""
    return os.path.join(CACHE, "tgt", pkg)


def bin_path(pkg, name):
    return os.path.join(target_dir(pkg), "debug", name)
EVID = os.path.join(VERIF, "evidence")
REPLAY = os.path.join(EVID, "replay")
HOOK_FLAGS = "--cfg sqlparser_verif"
NCPU = 16

for d in (CACHE, GEN, CASES, EVID, REPLAY):
    os.makedirs(d, exist_ok=True)


def log(msg):
    print(msg, flush=True)


class Lock:
    def __init__(self, name):
        self.path = os.path.join(CACHE, name + ".lock")

    def __enter__(self):
        self.f = open(self.path, "w")
        fcntl.flock(self.f, fcntl.LOCK_EX)
        return self

    def __exit__(self, *a):
        fcntl.flock(self.f, fcntl.LOCK_UN)
        self.f.close()


def env_offline(extra=None):
    e = dict(os.environ)
    e["CARGO_NET_OFFLINE"] = "true"
    e["RUSTFLAGS"] = HOOK_FLAGS
    e.pop("RUST_BACKTRACE", None)
    if extra:
        e.update(extra)
    return e


class BuildFailed(Exception):
    pass


_built = set()


def build_harness(pkg="vh"):
    """cargo build of one harness crate (path-dependency on /repo's working tree, hooks on)."""
    if pkg in _built:
        return
    with Lock("cargo"):
        t = time.time()
        cdir = os.path.join(VERIF, "harness", pkg)
        if not os.path.exists(os.path.join(cdir, "Cargo.lock")):
            import shutil
            shutil.copy(os.path.join(VERIF, "harness", "Cargo.lock"), os.path.join(cdir, "Cargo.lock"))
        p = subprocess.run(
            ["timeout", "1200", "cargo", "build", "--offline", "--bins"],
            cwd=cdir, env=env_offline({"CARGO_TARGET_DIR": target_dir(pkg)}),
            stdout=subprocess.PIPE, stderr=subprocess.STDOUT, text=True)
        if p.returncode != 0:
            raise BuildFailed(p.stdout[-6000:])
        log(f"[build] harness crate {pkg} built against {REPO} in {time.time()-t:.1f}s")
    _built.add(pkg)


def run_bin(name, args, lines=None, timeout=900, raw=False, env=None, pkg="vh"):
    """Run a harness binary; `lines` is an iterable of JSON-serialisable cases fed on stdin.
    Returns the list of decoded JSON output lines (or raw stdout)."""
    build_harness(pkg)
    inp = None
    if lines is not None:
        inp = "".join(json.dumps(x, ensure_ascii=False) + "\n" for x in lines)
    p = subprocess.run([bin_path(pkg, name)] + list(args), input=inp, text=True,
                       stdout=subprocess.PIPE, stderr=subprocess.PIPE, timeout=timeout,
                       env=env_offline(env))
    if p.returncode != 0:
        raise RuntimeError(f"{name} {args} exited {p.returncode}: {p.stderr[-3000:]}")
    if raw:
        return p.stdout
    return [json.loads(l) for l in p.stdout.split("\n") if l.strip()]


def run_bin_parallel(name, args, cases, shards=NCPU, timeout=900, pkg="vh", on_fail="raise", case_timeout=None):
    """Shard `cases` over several processes, keep order.

    on_fail="mark": a case on which the driver hangs (its watchdog, exit status 3, or our own
    timeout) or dies (signal / abort) gets the result {"status": "hang"|"crash", "harness": ...}
    and the driver is restarted on the rest of the shard; with "raise" (default) any of these
    raises RuntimeError."""
    build_harness(pkg)
    if not cases:
        return []
    shards = max(1, min(shards, len(cases) // 50 + 1))
    chunks = [cases[i::shards] for i in range(shards)]
    import threading
    results = [None] * len(chunks)
    env = env_offline()
    if case_timeout:
        env["VH_CASE_TIMEOUT"] = str(case_timeout)

    def one(ch):
        inp = "".join(json.dumps(x, ensure_ascii=False) + "\n" for x in ch)
        p = subprocess.Popen([bin_path(pkg, name)] + list(args), stdin=subprocess.PIPE,
                             stdout=subprocess.PIPE, stderr=subprocess.PIPE, text=True, env=env)
        try:
            o, e = p.communicate(inp, timeout=timeout)
            rc = p.returncode
        except subprocess.TimeoutExpired:
            p.kill()
            o, e = p.communicate()
            rc = "timeout"
        return rc, o, e

    def work(i, ch):
        done = []
        rest = list(ch)
        restarts = 0
        while rest:
            rc, o, e = one(rest)
            rs = []
            for l in o.split("\n"):
                if l.strip():
                    try:
                        rs.append(json.loads(l))
                    except ValueError:
                        break       # a line cut short by the exit
            if rc == 0:
                if len(rs) != len(rest):
                    results[i] = RuntimeError(f"{name}: {len(rs)} results for {len(rest)} cases")
                    return
                done += rs
                break
            if on_fail != "mark" or restarts > 40:
                results[i] = RuntimeError(f"{name} {args} shard exited {rc}: {e[-3000:]}")
                return
            restarts += 1
            if rc == 3 and rs and rs[-1].get("harness") == "watchdog":
                done += rs                      # the last line is the verdict of the hanging case
                rest = rest[len(rs):]
            else:
                rs = rs[:len(rest) - 1] if len(rs) >= len(rest) else rs
                tail = (e or "").strip().splitlines()[-1][:200] if (e or "").strip() else ""
                done += rs + [{"status": "hang" if rc == "timeout" else "crash", "harness": "exit %s" % rc, "stderr": tail}]
                rest = rest[len(rs) + 1:]
        results[i] = done

    ths = [threading.Thread(target=work, args=(i, ch)) for i, ch in enumerate(chunks)]
    for t in ths:
        t.start()
    for t in ths:
        t.join()
    for r in results:
        if isinstance(r, Exception):
            raise r
    out = [None] * len(cases)
    for s, rs in enumerate(results):
        for k, r in enumerate(rs):
            out[s + k * shards] = r
    return out


def coq_str(s):
    """Coq term of type [list N] for a Python string (code points)."""
    if s == "":
        return "[]"
    if all(32 <= ord(c) < 127 and c != '"' for c in s):
        return '(s2l "%s")' % s
    return "[" + ";".join(str(ord(c)) for c in s) + "]"


def coq_strs(ss):
    return "[" + "; ".join(coq_str(s) for s in ss) + "]"


def coq_opt(x, f=str):
    return "None" if x is None else "(Some %s)" % f(x)


def coq_bool(b):
    return "true" if b else "false"


def write_if_changed(path, content):
    try:
        if open(path).read() == content:
            return False
    except FileNotFoundError:
        pass
    os.makedirs(os.path.dirname(path), exist_ok=True)
    tmp = path + ".tmp%d" % os.getpid()
    open(tmp, "w").write(content)
    os.replace(tmp, path)
    return True


def coq_makefile():
    """(Re)generate the Makefile from _CoqProject + the .v files present."""
    files = []
    for sub in ("theories", "gen", "Properties"):
        d = os.path.join(COQ, sub)
        for f in sorted(os.listdir(d)):
            if f.endswith(".v"):
                files.append(f"{sub}/{f}")
    proj = "-Q theories SqlV\n-Q gen SqlVGen\n-Q Properties SqlVProps\n" + "\n".join(files) + "\n"
    changed = write_if_changed(os.path.join(COQ, "_CoqProject"), proj)
    if changed or not os.path.exists(os.path.join(COQ, "Makefile")):
        subprocess.run(["coq_makefile", "-f", "_CoqProject", "-o", "Makefile"], cwd=COQ,
                       check=True, stdout=subprocess.PIPE, stderr=subprocess.PIPE)


def coq_make(targets, timeout=900):
    """make the given .vo targets (paths relative to coq/). Returns (ok, output)."""
    with Lock("coq"):
        coq_makefile()
        t = time.time()
        p = subprocess.run(["timeout", str(timeout), "make", "-j%d" % NCPU] + list(targets),
                           cwd=COQ, stdout=subprocess.PIPE, stderr=subprocess.STDOUT, text=True)
        log(f"[coq] make {' '.join(targets)} -> {p.returncode} in {time.time()-t:.1f}s")
        return p.returncode == 0, p.stdout


def coqc_file(path, timeout=900):
    """Compile one stand-alone file (case files) against the built theories."""
    p = subprocess.run(["timeout", str(timeout), "coqc", "-noglob", "-Q", "theories", "SqlV",
                        "-Q", "gen", "SqlVGen", "-Q", "Properties", "SqlVProps", path],
                       cwd=COQ, stdout=subprocess.PIPE, stderr=subprocess.STDOUT, text=True)
    return p.returncode, p.stdout


def coqc_parallel(paths, timeout=900):
    procs = []
    for path in paths:
        procs.append(subprocess.Popen(
            ["timeout", str(timeout), "coqc", "-noglob", "-Q", "theories", "SqlV",
             "-Q", "gen", "SqlVGen", "-Q", "Properties", "SqlVProps", path],
            cwd=COQ, stdout=subprocess.PIPE, stderr=subprocess.STDOUT, text=True))
    outs = []
    for p in procs:
        o, _ = p.communicate()
        outs.append((p.returncode, o))
    return outs


BAD_RE = re.compile(r"=\s*\[([0-9;\s%N]*)\]")


def run_coq_cases(tag, header, case_terms, check_fn, shard_size=1500, per_case_type="_"):
    """Evaluate [check_fn : case -> bool] on every case inside Coq (vm_compute), sharded over
    parallel coqc runs.  `case_terms` are Coq terms.  Returns the list of failing case
    indices (empty = model and implementation agree everywhere) and raises on coqc errors."""
    shards = [case_terms[i:i + shard_size] for i in range(0, len(case_terms), shard_size)]
    paths = []
    for k, sh in enumerate(shards):
        body = [header, "", "Definition cases : list %s := [" % per_case_type]
        body.append(";\n".join("  " + c for c in sh))
        body.append("].")
        body.append("Fixpoint bad_from (i : N) (l : list %s) : list N :=" % per_case_type)
        body.append("  match l with [] => [] | c :: r => if %s c then bad_from (N.succ i) r else i :: bad_from (N.succ i) r end." % check_fn)
        body.append("Eval vm_compute in (bad_from 0 cases).")
        path = os.path.join(CASES, f"{tag}_{k}.v")
        write_if_changed(path, "\n".join(body) + "\n")
        paths.append(path)
    bad = []
    t = time.time()
    for start in range(0, len(paths), NCPU):
        batch = paths[start:start + NCPU]
        for j, (rc, out) in enumerate(coqc_parallel(batch)):
            k = start + j
            if rc != 0:
                raise RuntimeError(f"coqc failed on {batch[j]}:\n{out[-3000:]}")
            m = BAD_RE.search(out.replace("\n", " "))
            if not m:
                raise RuntimeError(f"cannot parse coqc output for {batch[j]}: {out[-2000:]}")
            for tok in re.findall(r"[0-9]+", m.group(1)):
                bad.append(k * shard_size + int(tok))
    log(f"[coq] evaluated {len(case_terms)} cases of {tag} in the kernel VM in {time.time()-t:.1f}s, {len(bad)} disagreements")
    for p in paths:
        for ext in (".vo", ".vok", ".vos", ".glob"):
            q = p[:-2] + ext
            if os.path.exists(q):
                os.remove(q)
    return bad


def coq_eval(header, term, timeout=600):
    """Evaluate one term with vm_compute and return Coq's printed output."""
    path = os.path.join(CASES, "eval_%d.v" % os.getpid())
    open(path, "w").write(header + "\nEval vm_compute in (%s).\n" % term)
    rc, out = coqc_file(path, timeout)
    for ext in (".v", ".vo", ".vok", ".vos", ".glob"):
        q = path[:-2] + ext
        if os.path.exists(q):
            os.remove(q)
    return rc, out


FORBIDDEN = re.compile(
    r"\b(Admitted|admit|Axiom|Axioms|Parameter|Parameters|Conjecture|Conjectures|Abort All|"
    r"Unset\s+Guard\s+Checking|Unset\s+Positivity\s+Checking|Unset\s+Universe\s+Checking|"
    r"bypass_check|Admit\s+Obligations|type-in-type|impredicative-set)\b")


def strip_coq_comments(src):
    out, depth, i = [], 0, 0
    while i < len(src):
        if src.startswith("(*", i):
            depth += 1
            i += 2
        elif src.startswith("*)", i) and depth > 0:
            depth -= 1
            i += 2
        else:
            if depth == 0:
                out.append(src[i])
            i += 1
    return "".join(out)


def scan_forbidden(files):
    """grep for forbidden vernacular in the given .v files (comments stripped). Also flags
    Variable/Hypothesis outside a Section."""
    bad = []
    for f in files:
        src = strip_coq_comments(open(f).read())
        # ignore string literals
        src_ns = re.sub(r'"(?:[^"]|"")*"', '""', src)
        for m in FORBIDDEN.finditer(src_ns):
            bad.append(f"{f}: {m.group(0)}")
        depth = 0
        for m in re.finditer(r"^\s*(Section|Module\s+Type|End|Variable|Variables|Hypothesis|Hypotheses|Context)\b", src_ns, re.M):
            w = m.group(1)
            if w == "Section":
                depth += 1
            elif w == "End":
                depth = max(0, depth - 1)
            elif w.startswith("Module"):
                bad.append(f"{f}: Module Type")
            elif depth == 0:
                bad.append(f"{f}: {w} outside a section")
    return bad


STMT_RE = re.compile(r"^\s*(Theorem|Lemma|Corollary|Proposition|Fact|Remark|Example)\s+([A-Za-z0-9_']+)", re.M)


def count_statements(files):
    n = 0
    for f in files:
        n += len(STMT_RE.findall(strip_coq_comments(open(f).read())))
    return n


ALLOWED_AXIOMS = set()  # none needed so far; std-lib axioms would be named here and in DESIGN.md


def parse_assumptions(make_output_or_file_output):
    """Extract `Print Assumptions` results: returns (closed_count, list of axiom names)."""
    closed = len(re.findall(r"Closed under the global context", make_output_or_file_output))
    axioms = []
    for m in re.finditer(r"Axioms:\s*\n((?:.+\n?)+?)(?:\n|$)", make_output_or_file_output):
        for l in m.group(1).splitlines():
            mm = re.match(r"\s*([A-Za-z0-9_.']+)\s*:", l)
            if mm:
                axioms.append(mm.group(1))
    return closed, axioms


def cone_of(vfile):
    """Transitive dependencies (our own .v files) of a file, via coqdep."""
    coq_makefile()
    p = subprocess.run(["coqdep", "-Q", "theories", "SqlV", "-Q", "gen", "SqlVGen", "-Q",
                        "Properties", "SqlVProps"] + [l for l in open(os.path.join(COQ, "_CoqProject")).read().split("\n") if l.endswith(".v")],
                       cwd=COQ, stdout=subprocess.PIPE, stderr=subprocess.PIPE, text=True)
    deps = {}
    for line in p.stdout.splitlines():
        if ":" not in line:
            continue
        lhs, rhs = line.split(":", 1)
        tg = [x for x in lhs.split() if x.endswith(".vo")]
        if not tg:
            continue
        src = tg[0][:-1]
        deps[src] = [x[:-1] for x in rhs.split() if x.endswith(".vo") and not x.startswith("/")]
    seen, todo = [], [vfile]
    while todo:
        f = todo.pop()
        if f in seen:
            continue
        seen.append(f)
        todo.extend(deps.get(f, []))
    return [os.path.join(COQ, f) for f in seen]


def prove(prop_file, timeout=1500):
    """Build Properties/<prop_file>.vo; scan its cone; return dict with status."""
    rel = f"Properties/{prop_file}.v"
    # force re-check of the property file itself so that Print Assumptions output is fresh
    vo = os.path.join(COQ, rel + "o")
    if os.path.exists(vo):
        os.remove(vo)
    ok, out = coq_make([rel + "o"], timeout)
    cone = cone_of(rel) if os.path.exists(os.path.join(COQ, rel)) else []
    forb = scan_forbidden(cone)
    closed, axioms = parse_assumptions(out)
    bad_ax = [a for a in axioms if a not in ALLOWED_AXIOMS]
    nstmt = count_statements(cone)
    return {"ok": ok and not forb and not bad_ax, "make_ok": ok, "output": out, "forbidden": forb,
            "closed": closed, "axioms": axioms, "cone": [os.path.relpath(c, COQ) for c in cone],
            "statements": nstmt}


def failing_coq_item(out):
    """Best-effort: name the file/line that failed in make output."""
    m = re.search(r'File "([^"]+)", line (\d+), characters [\d-]+:\s*\n(Error:.*(?:\n.+){0,8})', out)
    if m:
        return f"{m.group(1)}:{m.group(2)}: {m.group(3).strip()[:600]}"
    return out[-800:]


# ---------------------------------------------------------------- known findings

def known_findings(prop):
    """Entries of KNOWN_FINDINGS.txt for a property: list of (key, text)."""
    res = []
    path = os.path.join(VERIF, "KNOWN_FINDINGS.txt")
    if not os.path.exists(path):
        return res
    for l in open(path):
        l = l.strip()
        m = re.match(r"known:\s+property=(\S+)\s+key=(\S+)\s+(.*)", l)
        if m and m.group(1) == prop:
            res.append((m.group(2), m.group(3)))
    return res


# ---------------------------------------------------------------- evidence / violations

class Run:
    def __init__(self, prop, tier, level="proof"):
        self.prop = prop
        self.tier = tier
        self.seed = int(os.environ.get("VERIF_SEED", "1"))
        self.rng = random.Random(self.seed * 1000003 + int(prop[1:]))
        self.level = level
        self.t0 = time.time()
        self.cov = {"obligations": 0, "discharged": 0, "checker_cmd": "", "trusted_base": [],
                    "evaluations": 0, "distinct_nontrivial": 0, "rule": "", "samples": []}
        self.assumptions = []
        self.violations = []
        self.known_hit = {}
        self.notes = {}

    def add_eval(self, n, distinct_nontrivial):
        self.cov["evaluations"] += n
        self.cov["distinct_nontrivial"] += distinct_nontrivial

    def sample(self, x, limit=12):
        if len(self.cov["samples"]) < limit:
            self.cov["samples"].append(x)

    def violation(self, replay, no_input=False):
        """Record a violation with a replay object (dict).  At most 25 replay files are written
        per run; further violations are only counted."""
        if len(self.violations) >= 25:
            self.suppressed = getattr(self, "suppressed", 0) + 1
            return
        os.makedirs(REPLAY, exist_ok=True)
        replay = dict(replay)
        replay["property"] = self.prop
        replay["kind"] = "no-failing-input-found" if no_input else "failing-input"
        h = hashlib.sha1(json.dumps(replay, sort_keys=True, ensure_ascii=False).encode()).hexdigest()[:12]
        path = os.path.join(REPLAY, f"{self.prop}-{h}.json")
        json.dump(replay, open(path, "w"), indent=1, ensure_ascii=False)
        self.violations.append((path, no_input))

    def known(self, key, what):
        self.known_hit[key] = what

    def finish(self):
        ev = {
            "property_id": self.prop, "tier": self.tier, "seed": self.seed, "level": self.level,
            "coverage": self.cov, "assumptions": self.assumptions,
            "wall_s": round(time.time() - self.t0, 2), "violations": len(self.violations) + getattr(self, "suppressed", 0),
        }
        ev["coverage"].update(self.notes)
        ev["coverage"]["known_findings_reproduced"] = sorted(self.known_hit)
        if not ev["coverage"]["samples"]:
            ev["coverage"]["samples"] = ["(no case was run: the check stopped before its correspondence stage)"]
        json.dump(ev, open(os.path.join(EVID, f"{self.prop}.json"), "w"), indent=1, ensure_ascii=False)
        for key, what in sorted(self.known_hit.items()):
            print(f"KNOWN-FINDING: property={self.prop} {key} {what}", flush=True)
        if self.violations:
            # failing inputs first
            for path, no_input in sorted(self.violations, key=lambda x: x[1]):
                print(f"VIOLATION property={self.prop} replay={path}" + (" no-failing-input-found" if no_input else ""), flush=True)
            return 1
        print(f"OK property={self.prop} tier={self.tier} obligations={self.cov['obligations']} "
              f"evaluations={self.cov['evaluations']} wall={ev['wall_s']}s", flush=True)
        return 0


TRUSTED_BASE_COMMON = [
    "Coq 8.16.1 kernel including its vm_compute reduction machine (no native_compute)",
    "translator: harness/src/bin/extract.rs (dumps values computed by the current /repo crate) and lib/*.py (prints them as Coq terms)",
    "correspondence harness: harness/src/bin/drive.rs runs the implementation; results are encoded as Coq terms and compared with the model's output inside the kernel VM",
    "no axioms: every property theorem is followed by Print Assumptions and must report 'Closed under the global context'",
]
