"""Corpus of SQL strings harvested from /repo's own tests at run time + /verif/corpus."""
import json
import os
from common import run_bin, REPO, VERIF

_cache = None


def corpus():
    global _cache
    if _cache is None:
        out = run_bin("corpus", [REPO])
        extra = []
        d = os.path.join(VERIF, "corpus")
        for f in sorted(os.listdir(d)):
            if f.endswith(".jsonl"):
                for l in open(os.path.join(d, f)):
                    if l.strip():
                        e = json.loads(l)
                        # minimised past failures: one entry per dialect, so that checks that
                        # sample one accepting dialect per text still run every listed dialect
                        for dn in e["dialects"]:
                            extra.append({"sql": e["sql"], "dialects": [dn]})
        _cache = extra + out
    return _cache
