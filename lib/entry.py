"""Shared by C14/C15: the entryx harness (routes, sub-parsers, reuse histories, generated
forwarding wrapper dialect, conformance inventories)."""
import json
import os
from common import *
import machine

PKG = "entryx"
_inv = None


def inventory():
    global _inv
    if _inv is None:
        _inv = run_bin("entryx", ["inv", REPO], pkg=PKG)[0]
    return _inv


def items(kind):
    return [x for x in inventory()["items"] if x["kind"] == kind]
