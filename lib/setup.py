"""MANIFEST.setup_cmd: build the harness and the whole Coq development once from files on disk."""
import importlib
import os
import sys
import common

PROPS = ["C%02d" % i for i in range(1, 21)]


def main():
    try:
        import subprocess
        for d in sorted(os.listdir(os.path.join(common.VERIF, "harness"))):
            if os.path.exists(os.path.join(common.VERIF, "harness", d, "Cargo.toml")):
                common.build_harness(d)
    except common.BuildFailed as e:
        print(str(e))
        return 1
    run = common.Run("C00", "quick")
    for p in PROPS:
        if not os.path.exists(os.path.join(common.VERIF, "lib", "props", p + ".py")):
            continue
        mod = importlib.import_module("props." + p)
        if hasattr(mod, "gen_all"):
            mod.gen_all(run)
    ok, out = common.coq_make(["all"], timeout=3000)
    if not ok:
        print(out[-4000:])
        return 1
    print("setup ok")
    return 0
