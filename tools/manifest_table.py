CLAIMED = {
 "C08": {
  "text": "Token level: theorems (Coq, unbounded over all words) that Token::make_word, modelled as Rust's binary search over the keyword table, recognises every table entry in every ASCII capitalisation as its own variant, recognises nothing else, never recognises quoted words, keeps spelling and quoting verbatim, and cannot index out of bounds; instantiated on the keyword table dumped from the compiled crate on every run (sortedness, equal lengths, upper-case entries, distinct variants decided by vm_compute). The model is tied to the code by evaluating model and implementation on ~9k words (all entries x 4 capitalisations x quoted/unquoted, near misses, Unicode look-alikes) and comparing inside the kernel. Parser level (recasing keyword occurrences of accepted texts leaves the tree unchanged up to preserved identifier spelling) is sampled on the implementation over the test-suite corpus, not proved.",
  "note": "Trusted: Coq kernel + vm_compute; the dump of ALL_KEYWORDS/ALL_KEYWORDS_INDEX by harness/src/bin/extract.rs; the hand-written models of make_word and slice::binary_search (validated by correspondence, not proved equal to the Rust code); Rust str ordering = code point order. No axioms (Print Assumptions: closed under the global context). Parser-level clause: exploration only.",
  "technique": "Coq proof over generated keyword table + in-kernel model/implementation correspondence",
 },
}
NOT_YET = {}
