#!/usr/bin/env python3
"""tools/seedtest.py <patch.diff> <Cxx> [Cyy ...] [--tier quick|thorough] [--keep]

Runs checks against /repo WITH a seeded change, in isolation: a scratch worktree of /repo with the
patch applied and a scratch copy of /verif are bind-mounted over /repo and /verif inside a private
mount namespace (unshare -m), so the real /repo and /verif (and checks other sessions are running
against them) are untouched.  Prints each check's verdict; exit 0 iff every listed check reported
a violation (i.e. the change was caught)."""
import json, os, re, shutil, subprocess, sys, tempfile, time

args = sys.argv[1:]
tier, keep = "quick", False
if "--tier" in args:
    i = args.index("--tier"); tier = args[i + 1]; del args[i:i + 2]
if "--keep" in args:
    keep = True; args.remove("--keep")
patch, props = os.path.abspath(args[0]), args[1:]
base = tempfile.mkdtemp(prefix="vs-", dir="/var/tmp")
repo, verif = os.path.join(base, "repo"), os.path.join(base, "verif")
def sh(cmd, **kw):
    return subprocess.run(cmd, shell=True, stdout=subprocess.PIPE, stderr=subprocess.STDOUT, text=True, **kw)
try:
    r = sh(f"git -C /repo worktree add --detach {repo} HEAD")
    assert r.returncode == 0, r.stdout
    r = sh(f"git -C {repo} apply {patch}")
    if r.returncode != 0:
        print("PATCH DOES NOT APPLY:", r.stdout); sys.exit(2)
    os.makedirs(verif)
    sh(f"rsync -a --exclude .cache --exclude .git --exclude evidence/replay /verif/ {verif}/")
    os.makedirs(os.path.join(verif, ".cache", "tgt"))
    pkgs = {"vh"}
    for p in props:
        src = open(f"/verif/lib/props/{p}.py").read()
        for extra in ("machine.py", "lexlib.py"):
            if extra[:-3] in src:
                src += open(f"/verif/lib/{extra}").read()
        pkgs |= set(re.findall(r'pkg\s*=\s*"(\w+)"', src)) | set(re.findall(r'PKG\s*=\s*"(\w+)"', src))
    for k in pkgs:
        if os.path.isdir(f"/verif/.cache/tgt/{k}"):
            sh(f"cp -a /verif/.cache/tgt/{k} {verif}/.cache/tgt/{k}")
    caught = {}
    record = {}
    for p in props:
        t0 = time.time()
        cmd = (f"unshare -m bash -c 'mount --bind {repo} /repo && mount --bind {verif} /verif && cd /verif && "
               f"VERIF_TIER={tier} timeout 3000 ./check {p} --tier {tier}'")
        r = sh(cmd)
        lines = [l for l in r.stdout.splitlines() if l.startswith(("VIOLATION", "OK ", "KNOWN-FINDING"))]
        viol = [l for l in lines if l.startswith("VIOLATION")]
        with_input = [l for l in viol if not l.endswith("no-failing-input-found")]
        caught[p] = bool(viol)
        print(f"== {p}: exit={r.returncode} violations={len(viol)} with_failing_input={len(with_input)} wall={time.time()-t0:.0f}s")
        for l in lines[:6]:
            print("   ", l[:230])
        for l in viol[:2]:
            m = re.search(r"replay=(\S+)", l)
            if m:
                rp = m.group(1).replace("/verif/", verif + "/")
                try:
                    d = json.load(open(rp))
                    print("    replay:", json.dumps({k: (d[k] if k != "tool_output" else str(d[k])[-400:]) for k in d}, ensure_ascii=False)[:900])
                except Exception as e:
                    print("    (replay unreadable)", e)
        if not viol:
            print("    tail:", r.stdout[-600:])
        first = None
        for l in viol[:1]:
            m = re.search(r"replay=(\S+)", l)
            if m:
                try:
                    d = json.load(open(m.group(1).replace("/verif/", verif + "/")))
                    first = {k: d[k] for k in d if k in ("what", "dialect", "input", "variant", "observed", "unchecked", "kind", "template", "options")}
                except Exception:
                    pass
        record[p] = {"tier": tier, "caught": bool(viol), "violations": len(viol), "with_failing_input": len(with_input), "first_replay": first,
                     "verif_commit": sh("git -C /verif rev-parse --short HEAD").stdout.strip()}
    sd = os.path.dirname(patch)
    if sd.startswith("/verif/seeded/"):
        f = os.path.join(sd, "checks.json")
        old = json.load(open(f)) if os.path.exists(f) else {}
        old.update(record)
        json.dump(old, open(f, "w"), indent=1, ensure_ascii=False)
    sys.exit(0 if all(caught.values()) else 1)
finally:
    if not keep:
        sh(f"git -C /repo worktree remove --force {repo}")
        shutil.rmtree(base, ignore_errors=True)
        sh("git -C /repo worktree prune")
