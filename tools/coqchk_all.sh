#!/bin/bash
# tools/coqchk_all.sh — re-check the compiled closure of every Properties/Cxx.vo with Coq's independent
# checker and print the axiom summary (expected: "Axioms: <none>"). Takes a few minutes.
cd /verif/coq || exit 2
# rebuild every property first: per-property builds leave other files stale ("inconsistent assumptions")
../tools/coqmake $(ls Properties/C*.v | sed 's/\.v$/.vo/') >/dev/null 2>&1
mods=""; for f in Properties/C*.v; do b=$(basename $f .v); [ -f Properties/$b.vo ] && mods="$mods SqlVProps.$b"; done
timeout 3000 coqchk -silent -o -Q theories SqlV -Q gen SqlVGen -Q Properties SqlVProps $mods 2>&1 | tail -14
