#!/bin/bash
# tools/seedall.sh [ids...] — run each seeded change against the check of its own property
# (and extra checks listed in seeded/<id>/also.txt), recording seeded/<id>/checks.json
cd /verif
ids="$@"; [ -z "$ids" ] && ids=$(ls seeded)
for id in $ids; do
  prop=${id%%-*}
  extra=$(cat seeded/$id/also.txt 2>/dev/null)
  echo "### $id"
  python3 tools/seedtest.py /verif/seeded/$id/patch.diff $prop $extra | grep -E "^(==|    replay)" | cut -c1-300
done
