#!/bin/bash
# tools/seedconfirm.sh <seed-dir (patch.diff, demo.rs, meta.json)> <seed-id>
# Confirms a seeded change in a scratch worktree: demo passes without it, fails with it, and the
# whole suite still passes with it. On success copies it to /verif/seeded/<seed-id>/ with confirm.json.
set -u
src="$1"; id="$2"; wt=$(mktemp -d /var/tmp/sc-XXXXXX); rmdir "$wt"
git -C /repo worktree add --detach "$wt" HEAD >/dev/null 2>&1 || { echo "worktree failed"; exit 2; }
cleanup() { git -C /repo worktree remove --force "$wt" >/dev/null 2>&1; rm -rf "$wt"; git -C /repo worktree prune; }
trap cleanup EXIT
cp "$src/demo.rs" "$wt/tests/seed_demo.rs"
cd "$wt"
export CARGO_NET_OFFLINE=true
cargo test --offline ${SEED_FEATURES:+--features $SEED_FEATURES} --test seed_demo >/tmp/sc-$id-base.log 2>&1; base=$?
git apply "$src/patch.diff" || { echo "$id: patch does not apply"; exit 2; }
cargo test --offline ${SEED_FEATURES:+--features $SEED_FEATURES} --test seed_demo >/tmp/sc-$id-mut.log 2>&1; mut=$?
rm tests/seed_demo.rs
suite=$(/verif/tools/suite.sh "$wt" | tail -1); suite_rc=$?
if [ -n "${SEED_FEATURES:-}" ]; then fsuite=$(cd "$wt" && cargo test --offline --features $SEED_FEATURES 2>&1 | awk '/^test result:/ {p+=$4; f+=$6} END {printf "with-features: passed=%d failed=%d", p, f}'); suite="$suite; $fsuite"; fi
echo "$id: demo_without_change_exit=$base demo_with_change_exit=$mut $suite"
if [ $base -eq 0 ] && [ $mut -ne 0 ] && echo "$suite" | grep -q "failed=0 builderror=0"; then
  mkdir -p /verif/seeded/$id; cp "$src/patch.diff" "$src/demo.rs" /verif/seeded/$id/
  python3 - "$src" "$id" "$suite" <<'PY'
import json, sys
src, sid, suite = sys.argv[1:4]
try: meta = json.load(open(src + "/meta.json"))
except Exception: meta = {}
meta["confirmed_by_main_session"] = {"demo_without_change": "pass", "demo_with_change": "fail", "suite_with_change": suite,
    "commands": ["git worktree add --detach <scratch> HEAD", "cargo test --offline --test seed_demo (without patch)", "git apply patch.diff", "cargo test --offline --test seed_demo (with patch)", "cargo test --workspace --no-fail-fast --offline (with patch)"]}
json.dump(meta, open(f"/verif/seeded/{sid}/meta.json", "w"), indent=1, ensure_ascii=False)
PY
  echo "$id: CONFIRMED -> /verif/seeded/$id"
else
  echo "$id: NOT confirmed"; tail -5 /tmp/sc-$id-base.log /tmp/sc-$id-mut.log
fi
