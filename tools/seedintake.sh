#!/bin/bash
# tools/seedintake.sh <worktree> <id...> : confirm each seeded change (tools/seedconfirm.sh) and run the
# check of its property against it (tools/seedtest.py); prints one summary block per id.
wt="$1"; shift
for id in "$@"; do
  prop=${id%%-*}
  case $prop in C16|C17) export SEED_FEATURES=serde,visitor,json_example;; *) unset SEED_FEATURES;; esac
  /verif/tools/seedconfirm.sh "$wt/seeded/$id" "$id" | grep -E "CONFIRMED|NOT confirmed|does not apply"
  if [ -d /verif/seeded/$id ]; then
    python3 /verif/tools/seedtest.py /verif/seeded/$id/patch.diff $prop | grep -E "^(==|    replay)" | cut -c1-420
  fi
done
