#!/bin/sh
# Runs /repo's own test suite (guard off) and prints a one-line summary. Exit 0 iff no failure.
cd "${1:-/repo}" && CARGO_NET_OFFLINE=true cargo test --workspace --no-fail-fast --offline 2>&1 | awk '
/^test result:/ { p+=$4; f+=$6 }
/^error/ { e=1; print }
/ FAILED$|^failures:/ { print }
END { printf "suite: passed=%d failed=%d builderror=%d\n", p, f, e; exit (f>0||e>0) }'
