#!/usr/bin/env python3
"""Renders DESIGN.md section 9 (seeded changes: which check catches which) from /verif/seeded/*/{meta,checks}.json."""
import json, os, re, sys
root = "/verif/seeded"
rows = []
for sid in sorted(os.listdir(root)):
    d = os.path.join(root, sid)
    if not os.path.isdir(d):
        continue
    meta = json.load(open(os.path.join(d, "meta.json"))) if os.path.exists(os.path.join(d, "meta.json")) else {}
    checks = json.load(open(os.path.join(d, "checks.json"))) if os.path.exists(os.path.join(d, "checks.json")) else {}
    what = (meta.get("what_breaks") or "").replace("\n", " ").replace("|", "\\|")
    what = what[:170] + ("…" if len(what) > 170 else "")
    needs = (meta.get("needs_to_manifest") or "").replace("\n", " ").replace("|", "\\|")
    needs = needs[:140] + ("…" if len(needs) > 140 else "")
    verdicts = []
    for c, r in sorted(checks.items()):
        if r["caught"]:
            verdicts.append("%s: caught (%s)" % (c, "failing input" if r["with_failing_input"] else "no-failing-input-found"))
        elif c != sid.split("-")[0]:
            verdicts.append("%s: silent (another property's check, run for information)" % c)
        else:
            verdicts.append("%s: MISSED" % c)
    files = ", ".join(sorted({os.path.basename(f) for f in meta.get("files_changed", [])}))
    rows.append("| %s | %s | %s | %s | %s |" % (sid, files, what, needs, "; ".join(verdicts) or "not run"))
out = ["## 9. Seeded changes: which check catches which", "",
       "Each change below was written by a fresh sub-agent that saw only the property text and a scratch",
       "worktree of /repo (nothing from /verif), compiles, passes the unedited suite (927 tests), and comes with a",
       "demonstration that fails with the change and passes without it — all three confirmed by the main session in a",
       "scratch worktree (`tools/seedconfirm.sh`). The checks were then run against each change in an isolated mount",
       "namespace (`tools/seedtest.py`: a patched worktree bind-mounted over /repo, a copy of /verif over /verif).",
       "Changes that were first missed led to the strengthening noted in the last paragraph.", "",
       "| id | file(s) | what breaks | needs to manifest | verdict (quick tier) |", "|---|---|---|---|---|"] + rows
print("\n".join(out))
