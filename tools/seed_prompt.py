#!/usr/bin/env python3
"""Prints the prompt for a seeding sub-agent: property text + scratch worktree only."""
import json, sys
pid = sys.argv[1]; k = sys.argv[2] if len(sys.argv) > 2 else "1"
for l in open('/verif/properties.jsonl'):
    p = json.loads(l)
    if p['id'] == pid:
        break
wt = "/tmp/seed-%s" % pid
print(f"""You are testing how robust a Rust library is against subtle regressions. You work ONLY inside the git worktree {wt} (a scratch checkout of the open-source crate sqlparser-rs, a SQL lexer/parser; build with `cargo build --offline`, run its tests with `cd {wt} && cargo test --offline`, nothing can be downloaded). Do not read or touch any directory outside {wt} (in particular not /verif and not /repo).

The library is supposed to satisfy this property:

  id: {p['id']}
  title: {p['title']}
  statement: {p['statement']}
  quantified over: {p['quantifier']['text']}

Your task: produce {k} DIFFERENT source change(s) to the library (files under src/ or derive/) that BREAK this property while (1) the crate still compiles without new warnings that would stand out, (2) the crate's whole existing test suite still passes unchanged (`cargo test --offline` — all tests green, do not edit or delete tests), and (3) the breakage needs something specific to manifest — an unusual input, a particular dialect or option combination, a multi-step sequence, two cooperating sites that each look fine alone — NOT something ordinary use or the existing tests would expose at once. Prefer realistic-looking edits a developer could make by mistake (an off-by-one, a wrong branch order, a missed case, a refactor that is almost equivalent), small (a few lines), in the code paths the property depends on. Make the changes qualitatively different from each other (different mechanism / code site).

For each change i (1..{k}) deliver, inside {wt}/seeded/{pid}-<i>/ :
  - patch.diff  — `git diff` of the change against HEAD (only that one change; restore the tree with `git checkout -- .` between changes);
  - a demonstration: demo.rs, a small Rust integration test placed by you at tests/seed_demo.rs while testing (NOT part of patch.diff) that FAILS with the change applied and PASSES on the unchanged checkout; copy it to seeded/{pid}-<i>/demo.rs; verify both outcomes yourself with `cargo test --offline --test seed_demo`;
  - meta.json — {{"property": "{pid}", "what_breaks": "...", "needs_to_manifest": "...", "files_changed": [...], "suite_passes_with_change": true, "commands_run": [...]}}.
You MUST actually run the full suite with each change applied and confirm it passes, and run the demo both ways. Leave the worktree clean (git checkout -- . ; remove tests/seed_demo.rs) at the end, with only the seeded/ directory added. Finish with a short report listing each change, the input that exposes it, and confirmation of the three runs (suite with change: pass; demo with change: fail; demo without change: pass).""")
