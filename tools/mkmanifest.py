#!/usr/bin/env python3
"""Regenerates /verif/MANIFEST.json from tools/manifest_table.py (claimed checks) and
properties.jsonl (everything not claimed is listed under not_applicable with a reason)."""
import json, os, sys
here = os.path.dirname(os.path.abspath(__file__))
sys.path.insert(0, here)
from manifest_table import CLAIMED, NOT_YET
root = os.path.dirname(here)
import glob
for f in sorted(glob.glob(os.path.join(here, "manifest_entries", "C*.json"))):
    CLAIMED[os.path.basename(f)[:-5]] = json.load(open(f))
props = [json.loads(l) for l in open(os.path.join(root, "properties.jsonl"))]
checks = []
for p in props:
    pid = p["id"]
    if pid in CLAIMED:
        c = CLAIMED[pid]
        checks.append({
            "property_id": pid,
            "quick_cmd": f"./check {pid} --tier quick",
            "thorough_cmd": f"./check {pid} --tier thorough",
            "evidence_file": f"evidence/{pid}.json",
            "replay_cmd_template": f"./check {pid} --replay {{path}}",
            "engine": "coq",
            "level_claimed": {"category": "proof", "text": c["text"], "design_ref": c.get("design_ref", f"DESIGN.md section 4 / {pid}")},
            "level_note": c["note"],
            "technique": c["technique"],
        })
na = [{"property_id": p["id"], "reason": NOT_YET.get(p["id"], "check not built yet (see DESIGN.md); no claim is made")}
      for p in props if p["id"] not in CLAIMED]
hooks_commits = [l.strip() for l in open(os.path.join(root, "HOOK_COMMITS.txt"))] if os.path.exists(os.path.join(root, "HOOK_COMMITS.txt")) else []
m = {
    "version": 1,
    "setup_cmd": "./check --setup",
    "hooks": {"guard": "sqlparser_verif", "enable": 'RUSTFLAGS="--cfg sqlparser_verif" (set by lib/common.py for every harness build)',
              "baseline_off_cmd": "cd /repo && cargo test --workspace --no-fail-fast --offline",
              "source_commits": hooks_commits, "add_only": True},
    "engines": [{"name": "coq", "path": "coq/", "serves_properties": sorted(CLAIMED),
                 "kind_free_text": "Coq 8.16.1 development: generic theory (coq/theories), instances regenerated from /repo on every run (coq/gen), property statements (coq/Properties); model-vs-implementation correspondence evaluated inside the kernel VM on cases produced by harness/ (Rust, linked against the current /repo tree)"}],
    "checks": checks,
    "notes": "Every check rebuilds the harness against /repo's working tree, regenerates coq/gen, re-checks the property's theorems, and runs the model/implementation correspondence. Known findings: KNOWN_FINDINGS.txt.",
    "not_applicable": na,
}
json.dump(m, open(os.path.join(root, "MANIFEST.json"), "w"), indent=1)
print("claimed:", sorted(CLAIMED), "unclaimed:", [x["property_id"] for x in na])
